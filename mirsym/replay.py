"""Native replay: build a solver model's pre-state through the public API, run the operation in dev and release
builds of /repo's current tree, parse what is observed."""
import os, re, subprocess, json

VERIF = os.path.dirname(os.path.dirname(os.path.abspath(__file__)))
RDIR = os.path.join(VERIF, 'replayer')
LINKS = ['parent', 'prev', 'next', 'first', 'last']
_built = {}

if os.environ.get('VERIF_REPO') and os.path.abspath(os.environ['VERIF_REPO']) != '/repo':
    # developer mode (seed experiments while /repo is busy): a scratch copy of the replayer that depends on the other checkout
    import shutil
    _src = RDIR
    RDIR = '/var/tmp/replayer-' + re.sub(r'[^A-Za-z0-9]', '_', os.path.abspath(os.environ['VERIF_REPO']))
    os.makedirs(os.path.join(RDIR, 'src'), exist_ok=True)
    shutil.copy(os.path.join(_src, 'src', 'main.rs'), os.path.join(RDIR, 'src', 'main.rs'))
    if os.path.exists(os.path.join(_src, 'Cargo.lock')): shutil.copy(os.path.join(_src, 'Cargo.lock'), os.path.join(RDIR, 'Cargo.lock'))
    open(os.path.join(RDIR, 'Cargo.toml'), 'w').write(open(os.path.join(_src, 'Cargo.toml')).read().replace('/repo/indextree', os.path.join(os.path.abspath(os.environ['VERIF_REPO']), 'indextree')))


def build(profile):
    """(re)build the replayer against /repo's current tree; returns binary path"""
    if profile in _built: return _built[profile]
    env = dict(os.environ); env['CARGO_NET_OFFLINE'] = 'true'; env.pop('RUSTFLAGS', None)
    env.setdefault('CARGO_TARGET_DIR', os.path.join(RDIR, 'target'))
    cmd = ['cargo', 'build', '--offline', '--quiet'] + (['--release'] if profile == 'release' else [])
    p = subprocess.run(cmd, cwd=RDIR, env=env, stdout=subprocess.PIPE, stderr=subprocess.PIPE, text=True)
    if p.returncode != 0:
        raise RuntimeError('replayer build failed:\n' + p.stderr[-3000:])
    b = os.path.join(env['CARGO_TARGET_DIR'], 'release' if profile == 'release' else 'debug', 'replayer')
    _built[profile] = b
    return b


def run_script(lines, profile='dev', timeout=20):
    """returns list of (lineno, status, payload); a hang gives a final ('TIMEOUT') entry for the command in flight"""
    b = build(profile)
    try:
        p = subprocess.run([b], input='\n'.join(lines) + '\n', stdout=subprocess.PIPE, stderr=subprocess.PIPE, text=True, timeout=timeout)
        out = p.stdout
        crashed = p.returncode != 0
    except subprocess.TimeoutExpired as e:
        out = e.stdout.decode() if isinstance(e.stdout, bytes) else (e.stdout or '')
        crashed = 'TIMEOUT'
    res = {}
    begun = None
    for ln in out.split('\n'):
        m = re.match(r'^(\d+) (BEGIN|OK|PANIC) ?(.*)$', ln)
        if not m: continue
        k = int(m.group(1))
        if m.group(2) == 'BEGIN': begun = k; continue
        res[k] = (m.group(2), m.group(3)); begun = None if begun == k else begun
    if begun is not None and begun not in res:
        res[begun] = ('TIMEOUT' if crashed == 'TIMEOUT' else 'CRASH', '')
    return res


OPT = r'(?:None|Some\(NodeId \{ index1: (\d+), stamp: NodeStamp\((-?\d+)\) \}\))'
NODE_RE = re.compile(r'Node \{ parent: ' + OPT + r', previous_sibling: ' + OPT + r', next_sibling: ' + OPT + r', first_child: ' + OPT +
                     r', last_child: ' + OPT + r', stamp: NodeStamp\((-?\d+)\), data: (?:Data\(P\((\d+)\)\)|NextFree\((?:None|Some\((\d+)\))\)) \}')


def parse_dump(text):
    """`{:?}` of Arena<P> -> dict in the same form as SymArena.model_dict / View.to_dict"""
    slots = []
    for m in NODE_RE.finditer(text):
        g = m.groups()
        d = {}
        for k, L in enumerate(LINKS):
            d[L] = [int(g[2 * k]), int(g[2 * k + 1])] if g[2 * k] is not None else None
        d['stamp'] = int(g[10])
        isd = g[11] is not None or ('Data(' in m.group(0))
        d['is_data'] = isd
        d['data'] = int(g[11]) if g[11] is not None else None
        d['next_free'] = int(g[12]) if g[12] is not None else None
        slots.append(d)
    mf = re.search(r'first_free_slot: (None|Some\((\d+)\)), last_free_slot: (None|Some\((\d+)\))', text)
    if not mf or text.count('Node {') != len(slots):
        raise ValueError('cannot parse arena dump: ' + text[:300])
    return {'slots': slots, 'first_free': int(mf.group(2)) if mf.group(2) is not None else None,
            'last_free': int(mf.group(4)) if mf.group(4) is not None else None}


def parse_id(text):
    m = re.match(r'NodeId\{index1:(\d+),stamp:NodeStamp\((-?\d+)\)\}', text.strip())
    return (int(m.group(1)), int(m.group(2))) if m else None


def gen_of(stamp): return stamp if stamp >= 0 else -(stamp + 1)


def construct_script(pre, old_ids=()):
    """public-API script reaching the pre-state `pre` (dict). old_ids: [(slot1, stamp)] ids of removed slots that
    the operation will need (register 'o<slot>_<stamp>'). Returns lines."""
    slots = pre['slots']; N = len(slots)
    L = []
    if pre.get('at'):
        # embedded pre-state: the modelled slots sit at the given positions of a longer arena; the other positions are
        # filled with detached live nodes that no call touches
        where = {p: k for k, p in enumerate(pre['at'])}
        for p in range(pre.get('vlen', max(pre['at']) + 1)):
            if p in where:
                s = slots[where[p]]
                L.append('new s%d %d' % (where[p] + 1, s['data'] if s.get('data') is not None else 0))
            else: L.append('new f 0')
    else:
        for i, s in enumerate(slots):
            L.append('new s%d %d' % (i + 1, s['data'] if s.get('data') is not None else 0))
    for i, s in enumerate(slots):
        g = gen_of(s['stamp']); d = s['data'] if s.get('data') is not None else 0
        cur = 0
        for (sl, stp) in sorted(set(old_ids)):
            if sl == i + 1 and stp < g and stp >= cur:
                if stp > cur: L.append('cycle s%d %d %d' % (i + 1, stp - cur, d))
                L.append('copy o%d_%d s%d' % (sl, stp, i + 1)); cur = stp
        if g > cur: L.append('cycle s%d %d %d' % (i + 1, g - cur, d))
    # shape
    for i, s in enumerate(slots):
        if s['stamp'] < 0: continue
        if s['first'] is not None:
            c = s['first'][0]; seen = 0
            while c is not None and seen <= N:
                L.append('append s%d s%d' % (i + 1, c))
                nx = slots[c - 1]['next']; c = nx[0] if nx else None; seen += 1
        if s['parent'] is None and s['prev'] is None and s['next'] is not None:
            c = i + 1; seen = 0
            while slots[c - 1]['next'] is not None and seen <= N:
                n = slots[c - 1]['next'][0]
                L.append('insert_after s%d s%d' % (c, n)); c = n; seen += 1
    # frees, in free-list order, then retired slots
    order = []
    c = pre['first_free']; seen = 0
    while c is not None and seen <= N:
        order.append(c + 1); c = slots[c]['next_free'] if c < N else None; seen += 1
    for i, s in enumerate(slots):
        if s['stamp'] < 0 and (i + 1) not in order: order.append(i + 1)
    for sl in order: L.append('remove s%d' % sl)
    L.append('drops')
    L.append('dump')
    return L


def project(a, at):
    """the modelled slots of a dump of an embedded arena, with positions translated back to slot numbers 1..N"""
    back = {p + 1: k + 1 for k, p in enumerate(at)}
    def lk(v):
        if v is None: return None
        return [back.get(v[0], -v[0]), v[1]]
    def fr(v):
        if v is None: return None
        return back[v + 1] - 1 if (v + 1) in back else -1 - v
    out = {'slots': [], 'first_free': fr(a['first_free']), 'last_free': fr(a['last_free'])}
    for p in at:
        if p >= len(a['slots']): return {'slots': [], 'first_free': None, 'last_free': None}
        s = dict(a['slots'][p])
        for Lk in LINKS: s[Lk] = lk(s[Lk])
        if s.get('next_free') is not None: s['next_free'] = fr(s['next_free'])
        out['slots'].append(s)
    return out


def same_state(a, b):
    """compare two arena dicts (payload of removed slots ignored)"""
    if b.get('at') and len(a['slots']) != len(b['slots']): a = project(a, b['at'])
    elif a.get('at') and len(a['slots']) != len(b['slots']): b = project(b, a['at'])
    if len(a['slots']) != len(b['slots']): return False
    if a['first_free'] != b['first_free'] or a['last_free'] != b['last_free']: return False
    for x, y in zip(a['slots'], b['slots']):
        if x['stamp'] != y['stamp']: return False
        for Lk in LINKS:
            if x[Lk] != y[Lk]: return False
        if x['stamp'] >= 0 and x.get('data') != y.get('data'): return False
        if x['stamp'] < 0 and x.get('next_free') != y.get('next_free'): return False
    return True


def reg_for(pre, slot, stamp):
    cur = pre['slots'][slot - 1]['stamp']
    if cur < 0 and stamp == cur: return 'g%d' % slot          # the id the arena reports for the removed node (get_node_id)
    if cur >= 0 or gen_of(cur) == stamp: return 's%d' % slot
    return 'o%d_%d' % (slot, stamp)


def op_line(op, args, pre):
    if op == 'new_node': return 'new rnew %d' % args['data']
    if op == 'clear': return 'clear'
    if op == 'append_value': return 'append_value %s %d rnew' % (reg_for(pre, args['t'], args['t_stamp']), args['data'])
    if op in ('detach', 'remove', 'remove_subtree'): return '%s %s' % (op, reg_for(pre, args['x'], args['x_stamp']))
    return '%s %s %s' % (op, reg_for(pre, args['t'], args['t_stamp']), reg_for(pre, args['x'], args['x_stamp']))


def replay_mutator(viol, profile):
    """returns dict: pre_ok, status (OK/PANIC/TIMEOUT/CRASH), result text, post (dict or None), drops (list)"""
    pre, args, op = viol['pre'], viol['args'], viol['op']
    old = []
    for k in ('t', 'x'):
        if k in args:
            cur = pre['slots'][args[k] - 1]['stamp']
            if cur < 0 and gen_of(cur) != args[k + '_stamp'] and args[k + '_stamp'] >= 0: old.append((args[k], args[k + '_stamp']))
    lines = construct_script(pre, old)
    # ids that the arena itself hands out for removed nodes
    ghosts = ['ghost g%d s%d' % (args[k], args[k]) for k in ('t', 'x') if k in args and pre['slots'][args[k] - 1]['stamp'] < 0 and args[k + '_stamp'] == pre['slots'][args[k] - 1]['stamp']]
    lines = lines[:-2] + sorted(set(ghosts)) + lines[-2:]
    n0 = len(lines)
    lines += [op_line(op, args, pre), 'dump', 'drops']
    res = run_script(lines, profile)
    out = {'script': lines, 'profile': profile}
    d = res.get(n0 - 1)
    try:
        got = parse_dump(d[1]) if d and d[0] == 'OK' else None
    except ValueError:
        got = None
    out['pre_ok'] = bool(got) and same_state(got, pre)
    out['pre_observed'] = got
    r = res.get(n0, ('MISSING', ''))
    out['status'], out['result'] = r
    pd = res.get(n0 + 1)
    try:
        out['post'] = parse_dump(pd[1]) if pd and pd[0] == 'OK' else None
    except ValueError:
        out['post'] = None
    if pre.get('at'):
        # embedded pre-state: report the modelled slots only, in slot numbers
        if out['post'] is not None: out['post'] = project(out['post'], pre['at'])
        if got is not None: out['pre_observed'] = project(got, pre['at'])
    dr = res.get(n0 + 2)
    out['drops'] = json.loads(dr[1]) if dr and dr[0] == 'OK' else None
    return out


# ---------------------------------------------------------------------------------------------
# iterators: concrete reference over the pre-state dict (documented sequences), and native observation

def _lnk(pre, L, n):
    v = pre['slots'][n - 1][L]
    return v[0] if v else None


def ref_sequence(pre, kind, x):
    N = len(pre['slots'])
    def walk(start, f):
        out = []; c = start
        while c is not None and len(out) <= 2 * N + 2:
            out.append(c); c = f(c)
        return out
    if kind == 'ancestors': return walk(x, lambda n: _lnk(pre, 'parent', n))
    if kind == 'predecessors': return walk(x, lambda n: _lnk(pre, 'prev', n) or _lnk(pre, 'parent', n))
    if kind == 'preceding_siblings': return walk(x, lambda n: _lnk(pre, 'prev', n))
    if kind == 'following_siblings': return walk(x, lambda n: _lnk(pre, 'next', n))
    if kind == 'children': return walk(_lnk(pre, 'first', x), lambda n: _lnk(pre, 'next', n))
    if kind == 'reverse_children': return walk(_lnk(pre, 'last', x), lambda n: _lnk(pre, 'prev', n))
    def kids(n): return walk(_lnk(pre, 'first', n), lambda c: _lnk(pre, 'next', c))
    def dfs(n, depth=0):
        if depth > N: return [('S', n)]
        out = [('S', n)]
        for c in kids(n): out += dfs(c, depth + 1)
        return out + [('E', n)]
    if kind == 'descendants': return [n for (k, n) in dfs(x) if k == 'S']
    if kind == 'traverse': return dfs(x)
    if kind == 'reverse_traverse': return list(reversed(dfs(x)))
    raise ValueError(kind)


def _fmt_id(pre, n):
    return 'NodeId{index1:%d,stamp:NodeStamp(%d)}' % (pre['at'][n - 1] + 1 if pre.get('at') else n, pre['slots'][n - 1]['stamp'])


def replay_iter(viol, profile):
    pre, x, kind = viol['pre'], viol['args']['x'], viol['op']
    lines = construct_script(pre)
    n0 = len(lines)
    out = {'profile': profile}
    if viol.get('kind') == 'deiter':
        pat = viol['pulls']
        lines.append('pulls %s s%d %s' % (kind, x, pat))
        F = ref_sequence(pre, kind, x)
        exp = []; nf = nb = 0
        for c in pat:
            if nf + nb < len(F):
                exp.append(_fmt_id(pre, F[nf] if c == 'f' else F[len(F) - 1 - nb]))
                if c == 'f': nf += 1
                else: nb += 1
            else: exp.append('None')
        expected = ','.join(exp)
    elif kind in ('next_traverse', 'prev_traverse'):
        return {'profile': profile, 'pre_ok': False, 'note': 'single-step law replays are not implemented'}
    else:
        lines.append('iter %s s%d' % (kind, x))
        R = ref_sequence(pre, kind, x)
        if kind in ('traverse', 'reverse_traverse'): expected = ','.join(k + _fmt_id(pre, n) for (k, n) in R)
        else: expected = ','.join(_fmt_id(pre, n) for n in R)
    res = run_script(lines, profile)
    d = res.get(n0 - 1)
    try: got = parse_dump(d[1]) if d and d[0] == 'OK' else None
    except ValueError: got = None
    out['script'] = lines
    out['pre_ok'] = bool(got) and same_state(got, pre)
    r = res.get(n0, ('MISSING', ''))
    out['status'], out['observed'] = r
    out['expected'] = expected
    out['differs'] = (r[0] != 'OK') or (r[1].strip() != expected)
    return out
