import sys, os, json
from dev_try import load
import pretty
N = int(sys.argv[1]); trait = sys.argv[2]
import traceback
prog = load()
job = {'kind': 'custom', 'name': 'pretty', 'N': N, 'trait': trait, 'cfg': 'dev', 'props': ['C14'], 'family': 'tree', 'rset': [0, 1], 'fix_x': 1, 'alt': 0}
if len(sys.argv) > 3: job['fix_parent'] = json.loads(sys.argv[3])
r = pretty.run_pretty_job(prog, job)
v = r.pop('violations'); r.pop('samples'); r.pop('smt2')
print(json.dumps(r, default=str)[:900])
if v: print(json.dumps(v[0], default=str)[:1500])
