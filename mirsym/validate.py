"""Translator validation (Serval style): the same operation scripts are executed natively (replayer, public API) and by
mirsym in concrete mode on the MIR; every intermediate state, result and iterator sequence must agree."""
import random, re
import z3
from engine import *
from symarena import *
import harness, iters, replay

MUT2 = list(harness.INSERTS)
MUT1 = list(harness.UNARY)
ITERS = iters.FWD + iters.EDGE


# scripts transcribed from the repository's own tests (tests/lib.rs, tests/remove.rs, arena.rs, id.rs)
def repo_scripts():
    S = []
    # success_create
    s = [('new', 'n0', 0)]
    for i in range(1, 11): s += [('new', 'n%d' % i, i), ('append', 'n0', 'n%d' % i)]
    s += [('iter', 'children', 'n0'), ('iter', 'descendants', 'n0'), ('iter', 'traverse', 'n0'), ('iter', 'reverse_traverse', 'n0')]
    S.append(s)
    # first_prepend / prepend
    S.append([('new', 'a', 1), ('new', 'b', 2), ('prepend', 'a', 'b'), ('new', 'c', 3), ('prepend', 'a', 'c'), ('iter', 'children', 'a'), ('iter', 'reverse_children', 'a')])
    # success_detach
    S.append([('new', 'a', 1), ('new', 'b', 2), ('append', 'a', 'b'), ('iter', 'descendants', 'a'), ('detach', 'b'), ('iter', 'descendants', 'a')])
    # remove
    S.append([('new', 'n0', 0), ('new', 'n1', 1), ('new', 'n2', 2), ('new', 'n3', 3), ('append', 'n0', 'n1'), ('append', 'n1', 'n2'), ('append', 'n2', 'n3'),
              ('remove', 'n1'), ('iter', 'descendants', 'n0'), ('iter', 'ancestors', 'n3')])
    # is_removed / insert_removed_node / inaccessible
    S.append([('new', 'a', 1), ('new', 'b', 2), ('new', 'c', 3), ('remove', 'b'), ('checked_append', 'a', 'b'), ('checked_prepend', 'b', 'a'),
              ('checked_insert_after', 'a', 'b'), ('checked_insert_before', 'b', 'c'), ('new', 'd', 4), ('checked_append', 'a', 'd')])
    # append_ancestor / prepend_ancestor / self
    S.append([('new', 'a', 1), ('new', 'b', 2), ('new', 'c', 3), ('append', 'a', 'b'), ('append', 'b', 'c'), ('checked_append', 'c', 'a'), ('checked_prepend', 'c', 'a'),
              ('checked_append', 'a', 'a'), ('checked_prepend', 'b', 'b'), ('checked_insert_after', 'c', 'c'), ('checked_insert_before', 'c', 'c'),
              ('checked_insert_after', 'c', 'a'), ('checked_insert_before', 'c', 'b')])
    # reuse_node (arena.rs)
    S.append([('new', 'a', 1), ('new', 'b', 2), ('new', 'c', 3), ('remove', 'a'), ('remove', 'b'), ('remove', 'c'), ('new', 'a', 1), ('new', 'b', 2), ('new', 'c', 3)])
    # test_remove_subtree_complex (id.rs)
    s = [('new', 'n1', 1), ('new', 'n1_1', 2), ('append', 'n1', 'n1_1'), ('new', 'n1_2', 3), ('append', 'n1', 'n1_2'), ('new', 'n1_2_1', 4), ('append', 'n1_2', 'n1_2_1'),
         ('new', 'n1_2_1_1', 5), ('append', 'n1_2_1', 'n1_2_1_1'), ('new', 'n1_2_1_1_1', 6), ('append', 'n1_2_1_1', 'n1_2_1_1_1'), ('new', 'n1_2_2', 7),
         ('append', 'n1_2', 'n1_2_2'), ('new', 'n1_3', 8), ('append', 'n1', 'n1_3'), ('remove_subtree', 'n1_2'), ('iter', 'traverse', 'n1'), ('new', 'x', 9), ('new', 'y', 10)]
    S.append(s)
    # tests/remove.rs shapes: root with children, remove first/middle/last/only, with and without grandchildren, top-level
    def shape():
        return [('new', 'r', 0), ('new', 'a', 1), ('new', 'b', 2), ('new', 'c', 3), ('append', 'r', 'a'), ('append', 'r', 'b'), ('append', 'r', 'c'),
                ('new', 'b1', 4), ('new', 'b2', 5), ('append', 'b', 'b1'), ('append', 'b', 'b2')]
    for victim in ('a', 'b', 'c', 'r', 'b1'):
        S.append(shape() + [('remove', victim), ('iter', 'traverse', 'r' if victim != 'r' else 'a'), ('iter', 'following_siblings', 'a'), ('iter', 'preceding_siblings', 'c')])
    for victim in ('b', 'r'):
        S.append(shape() + [('remove_subtree', victim), ('new', 'z', 9), ('new', 'w', 10), ('new', 'v', 11), ('new', 'u', 12)])
    # issue 30/78 style: detach + reinsert in top-level chains
    S.append([('new', 'a', 1), ('new', 'b', 2), ('new', 'c', 3), ('insert_after', 'a', 'b'), ('insert_before', 'a', 'c'), ('iter', 'following_siblings', 'c'),
              ('iter', 'preceding_siblings', 'b'), ('pulls', 'following_siblings', 'c', 'fbfbf'), ('remove', 'a'), ('iter', 'following_siblings', 'c')])
    # append_value
    S.append([('new', 'a', 1), ('append_value', 'a', 2, 'b'), ('append_value', 'b', 3, 'c'), ('append_value', 'b', 4, 'd'), ('iter', 'descendants', 'a'), ('remove', 'c'),
              ('append_value', 'a', 5, 'e'), ('iter', 'traverse', 'a')])
    return S


def random_script(rnd, nops):
    regs = []
    s = []
    nreg = 0
    for _ in range(rnd.randint(2, 5)):
        s.append(('new', 'r%d' % nreg, nreg)); regs.append('r%d' % nreg); nreg += 1
    for _ in range(nops):
        k = rnd.random()
        if k < 0.12:
            s.append(('new', 'r%d' % nreg, nreg % 250)); regs.append('r%d' % nreg); nreg += 1
        elif k < 0.18:
            s.append(('append_value', rnd.choice(regs), nreg % 250, 'r%d' % nreg)); regs.append('r%d' % nreg); nreg += 1
        elif k < 0.62:
            s.append((rnd.choice(MUT2), rnd.choice(regs), rnd.choice(regs)))
        elif k < 0.74:
            s.append((rnd.choice(MUT1), rnd.choice(regs)))
        elif k < 0.90:
            s.append(('iter', rnd.choice(ITERS), rnd.choice(regs)))
        else:
            s.append(('pulls', rnd.choice(iters.DE), rnd.choice(regs), ''.join(rnd.choice('fb') for _ in range(rnd.randint(1, 6)))))
    return s


def native_lines(script):
    L = []
    for c in script:
        if c[0] == 'new': L.append('new %s %d' % (c[1], c[2]))
        elif c[0] == 'append_value': L.append('append_value %s %d %s' % (c[1], c[2], c[3]))
        elif c[0] == 'iter': L.append('iter %s %s' % (c[1], c[2]))
        elif c[0] == 'pulls': L.append('pulls %s %s %s' % (c[1], c[2], c[3]))
        else: L.append(' '.join(str(x) for x in c))
        L.append('dump')
    return L


# ---------------------------------------------------------------------------------------------
# mirsym in concrete mode

class Concrete:
    def __init__(self, prog):
        self.prog = prog
        self.eng = Engine(prog, max_steps=2000000)
        self.st = State()
        f = harness.find_fn(prog, 'Arena', 'new')
        self.eng.push_call(self.st, f, [], None, None)
        o = self._one(self.eng.run(self.st))
        v = o.value
        # give the Vec room: concrete pushes extend the element list on demand
        self.acell = self.st.new_cell(v)
        self.regs = {}
        self.removed = set()

    def _one(self, outs):
        if len(outs) != 1: raise Unsupported('concrete execution forked into %d paths' % len(outs))
        self.st = outs[0].state
        if outs[0].kind != 'return': self.st.frames = []      # unwinding: the frames of the panicking call are gone
        return outs[0]

    def aref(self): return Ref(self.acell, ())

    def call(self, f, args):
        self.st.steps = 0
        self.eng.push_call(self.st, f, args, None, None)
        return self._one(self.eng.run(self.st))

    def idstr(self, nid):
        return 'NodeId{index1:%d,stamp:NodeStamp(%d)}' % (nid.f[0].f[0].v, nid.f[1].f[0].v)

    def is_live_reg(self, r):
        nid = self.regs[r]
        v = View(self.st.store[self.acell]).to_dict(None)
        sl = v['slots'][nid.f[0].f[0].v - 1]
        return sl['stamp'] >= 0 and sl['stamp'] == nid.f[1].f[0].v

    def run_cmd(self, c):
        """returns (status, text) comparable with the replayer's output, or None when the command is not a valid call"""
        prog = self.prog
        op = c[0]
        if op == 'new':
            o = self.call(harness.find_fn(prog, 'Arena', 'new_node'), [self.aref(), Opq(BV8(c[2]))])
            self.regs[c[1]] = o.value
            return ('OK', self.idstr(o.value))
        if op == 'append_value':
            o = self.call(harness.find_fn(prog, 'NodeId', 'append_value'), [self.regs[c[1]], Opq(BV8(c[2])), self.aref()])
            if o.kind == 'panic': return ('PANIC', '')
            self.regs[c[3]] = o.value
            return ('OK', self.idstr(o.value))
        if op in MUT1:
            o = self.call(harness.find_fn(prog, 'NodeId', op), [self.regs[c[1]], self.aref()])
            return ('PANIC', '') if o.kind == 'panic' else ('OK', '()')
        if op in MUT2:
            o = self.call(harness.find_fn(prog, 'NodeId', op), [self.regs[c[1]], self.regs[c[2]], self.aref()])
            if o.kind == 'panic': return ('PANIC', '')
            v = o.value
            if isinstance(v, En) and v.ty == 'Result':
                if v.d.v == 0: return ('OK', 'Ok(())')
                names = harness.err_variant_names()
                return ('OK', 'Err(%s)' % names[v.pay[1][0].d.v])
            return ('OK', '()')
        if op in ('iter', 'pulls'):
            kind, x = c[1], self.regs[c[2]]
            ctor = harness.find_fn(prog, 'NodeId', kind)
            o = self.call(ctor, [x, self.aref()])
            if o.kind == 'panic': return ('PANIC', '')
            itcell = self.st.new_cell(o.value)
            meth = iters.method_lookup(prog, iters.ITER_TYPE[kind])
            out = []
            pulls = c[3] if op == 'pulls' else None
            n = 0
            limit = 4 * View(self.st.store[self.acell]).N + 8
            while True:
                if pulls is not None and n >= len(pulls): break
                if pulls is None and n >= limit: out.append('LIMIT'); break
                fn = meth('next' if (pulls is None or pulls[n] == 'f') else 'next_back')
                o = self.call(fn, [Ref(itcell, ())])
                if o.kind == 'panic': return ('PANIC', '')
                v = o.value
                if v.d.v == 0:
                    if pulls is None: break
                    out.append('None')
                else:
                    p = v.pay[1][0]
                    if isinstance(p, En): out.append(('S' if p.d.v == 0 else 'E') + self.idstr(p.pay[p.d.v][0]))
                    else: out.append(self.idstr(p))
                n += 1
            return ('OK', ','.join(out))
        raise ValueError(c)

    def state(self):
        return View(self.st.store[self.acell]).to_dict(None)


def reg_args(c):
    if c[0] in MUT1: return [c[1]]
    if c[0] in MUT2: return [c[1], c[2]]
    if c[0] == 'append_value': return [c[1]]
    if c[0] in ('iter', 'pulls'): return [c[2]]
    return []


def valid_call(conc, c):
    """the crate documents detach/remove/remove_subtree on a removed node and iterators from removed nodes as invalid"""
    if any(r not in conc.regs for r in reg_args(c)): return False      # register never assigned (its allocation panicked)
    if c[0] in MUT1 or c[0] in ('iter', 'pulls'):
        r = c[1] if c[0] in MUT1 else c[2]
        return conc.is_live_reg(r)
    return True


def run_one(prog, script, profile='dev'):
    """returns (n_steps_compared, error or None)"""
    conc = Concrete(prog)
    # filter invalid calls using the concrete MIR state (both sides then run the same script)
    kept = []
    results = []
    for c in script:
        if not valid_call(conc, c): continue
        # ids of recycled slots (stale ids) are outside the claim: skip commands that mention a stale register
        stale = False
        for r in reg_args(c):
            nid = conc.regs[r]
            sl = conc.state()['slots'][nid.f[0].f[0].v - 1]
            if sl['stamp'] >= 0 and sl['stamp'] != nid.f[1].f[0].v: stale = True
            if sl['stamp'] < 0 and replay.gen_of(sl['stamp']) != nid.f[1].f[0].v: stale = True
        if stale: continue
        kept.append(c)
        results.append((conc.run_cmd(c), conc.state()))
    lines = native_lines(kept)
    nat = replay.run_script(lines, profile)
    for k, (c, (res, st)) in enumerate(zip(kept, results)):
        nr = nat.get(2 * k)
        nd = nat.get(2 * k + 1)
        if nr is None or nd is None: return k, 'native run stopped at command %d %r' % (k, c)
        if nr[0] != res[0]: return k, 'status differs at %r: native %s vs MIR %s' % (c, nr, res)
        if nr[0] == 'OK' and c[0] not in ('new',) and nr[1].strip() != res[1]:
            return k, 'result differs at %r: native %r vs MIR %r' % (c, nr[1][:200], res[1][:200])
        if c[0] in ('new', 'append_value') and nr[0] == 'OK' and nr[1].strip() != res[1]:
            return k, 'returned id differs at %r: native %r vs MIR %r' % (c, nr[1], res[1])
        try:
            nst = replay.parse_dump(nd[1])
        except ValueError as e:
            return k, str(e)
        if not replay.same_state(nst, st):
            return k, 'state differs after %r' % (c,)
    return len(kept), None


def run(prog, tier, seed, profile='dev'):
    rnd = random.Random(1000 + seed)
    scripts = repo_scripts()
    nrand = 12 if tier == 'quick' else 120
    for _ in range(nrand): scripts.append(random_script(rnd, rnd.randint(6, 16)))
    n = 0; errs = []
    for i, s in enumerate(scripts):
        try:
            k, err = run_one(prog, s, profile)
        except Unsupported as e:
            err = 'unsupported in concrete mode: %s' % e
        if err: errs.append('script %d: %s' % (i, err))
        else: n += 1
    return n, errs


if __name__ == '__main__':
    import sys
    from dev_try import load
    prog = load()
    n, errs = run(prog, sys.argv[1] if len(sys.argv) > 1 else 'quick', 0)
    print(n, 'scripts validated'); print('\n'.join(errs))
