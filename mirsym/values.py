"""C13: arenas are plain values - constructors give the empty INV state, clone is field-wise equal and independent,
clear() means fresh (same ids and states for any continuation, capacity kept), reserve changes nothing observable."""
import time
import z3
from engine import *
from symarena import *
import harness, specs
from harness import find_fn
from iters import new_result, check_obligations
from multistep import call_all, base_ctx

T_, F_ = z3.BoolVal(True), z3.BoolVal(False)


def mkviol(A, name, N):
    return lambda m, failed: {'kind': 'custom', 'module': 'values', 'confirm': 'confirm', 'checks': failed, 'op': name, 'N': N, 'cfg': 'dev',
                              'pre': A.model_dict(m) if A is not None else {'slots': [], 'first_free': None, 'last_free': None}, 'role': name, 'args': {}}


def empty_obligations(V, label):
    return [('C13.%s_is_empty' % label, z3.BoolVal(V.N == 0)),
            ('C13.%s_no_free_slots' % label, z3.And(z3.Not(V.ff_some), z3.Not(V.lf_some)))]


def find_trait_fn(prog, head, meth, trait):
    c = [f for (t, f) in prog.methods.get((head, meth), []) if t == trait]
    if not c: raise Unsupported('no <%s as %s>::%s in MIR' % (head, trait, meth))
    return c[0]


def run_base_job(prog, job):
    """Arena::new(), default(), with_capacity(n): the N=0 INV state (base case of the induction)"""
    t0 = time.time()
    prefixes = tuple(p + '.' for p in job['props'])
    eng = Engine(prog, max_steps=5000)
    res = new_result(job)
    st = State()
    n = z3.BitVec('cap_n', 64)
    for (fn, args, label) in ((find_fn(prog, 'Arena', 'new'), [], 'new'),
                              (find_trait_fn(prog, 'Arena', 'default', 'Default'), [], 'default'),
                              (find_fn(prog, 'Arena', 'with_capacity'), [S(n, 'usize')], 'with_capacity')):
        for o in call_all(eng, st, fn, args):
            res['paths'] += 1; res['steps'] += o.state.steps
            if o.kind != 'return': ob = [('C13.%s_no_panic' % label, F_)]
            else:
                V = View(o.value)
                ob = empty_obligations(V, label)
                if label == 'with_capacity':
                    cap = o.value.f[0].cap
                    ob.append(('C13.with_capacity_room_for_n', z3.UGE(bv(cap.v, 'usize'), n) if isinstance(cap, S) else F_))
                res['nontrivial'] += 1
            check_obligations(eng, list(o.state.pc), ob, prefixes, res, mkviol(None, label, 0))
    res['samples'].append({'harness': 'constructors', 'checked': ['new', 'default', 'with_capacity(n) for symbolic n']})
    res['feas_queries'] = eng.nq; res['solver_time'] += eng.tq; res['wall'] = time.time() - t0
    return res


def run_clone_job(prog, job):
    """clone(): field-wise equal, derived PartialEq says true both ways, original untouched; mutating the clone leaves the
    original untouched (independence)"""
    t0 = time.time()
    N = job['N']
    prefixes = tuple(p + '.' for p in job['props'])
    eng, A, st, acell = base_ctx(prog, N)
    res = new_result(job)
    if eng.solver.check() != z3.sat:
        res['vacuous'] = True; return res
    pre = View(A.value())
    aref = Ref(acell, ())
    clone = find_trait_fn(prog, 'Arena', 'clone', 'Clone')
    eq = find_trait_fn(prog, 'Arena', 'eq', 'PartialEq')
    mv = mkviol(A, 'clone', N)
    for o in call_all(eng, st, clone, [aref]):
        res['paths'] += 1; res['steps'] += o.state.steps
        if o.kind != 'return':
            check_obligations(eng, list(o.state.pc), [('C13.clone_no_panic', F_)], prefixes, res, mv); continue
        s = o.state
        ccell = s.new_cell(o.value)
        C = View(o.value); O = View(s.store[acell])
        ob = specs.arena_equal(pre, C, 'C13.clone_equal') + specs.arena_equal(pre, O, 'C13.clone_leaves_original')
        check_obligations(eng, list(s.pc), ob, prefixes, res, mv)
        for (a, b, lab) in ((aref, Ref(ccell, ()), 'orig_eq_clone'), (Ref(ccell, ()), aref, 'clone_eq_orig'), (aref, aref, 'reflexive')):
            for o2 in call_all(eng, s, eq, [a, b]):
                res['paths'] += 1; res['steps'] += o2.state.steps
                ob = [('C13.eq_%s' % lab, zb(o2.value) if o2.kind == 'return' else F_)]
                check_obligations(eng, list(o2.state.pc), ob, prefixes, res, mv)
        # independence: mutate the clone, the original does not change (and vice versa)
        if N:
            x = z3.BitVec('x', 64)
            live = [A.live(i) for i in range(N)]
            s2 = s.copy(); cx = z3.And(z3.UGE(x, 1), z3.ULE(x, N), sel(live, x))
            if eng.feasible(s2, cx):
                s2.pc.append(cx); s2.model = None
                for (target, other, lab) in ((ccell, acell, 'clone'), (acell, ccell, 'original')):
                    for o3 in call_all(eng, s2, find_fn(prog, 'NodeId', 'remove'), [A.id_of(x), Ref(target, ())]):
                        res['paths'] += 1; res['steps'] += o3.state.steps
                        if o3.kind != 'return': continue
                        ob = specs.arena_equal(pre, View(o3.state.store[other]), 'C13.mutating_%s_leaves_other' % lab)
                        Vt = View(o3.state.store[target])
                        ob.append(('C13.mutating_%s_takes_effect' % lab, z3.Not(sel([Vt.live(i) for i in range(N)], x))))
                        check_obligations(eng, list(o3.state.pc), ob, prefixes, res, mv)
                        res['nontrivial'] += 1
        # a different arena compares unequal: change one payload of the clone
        if N:
            k = z3.BitVec('k', 64)
            s4 = s.copy(); ck = z3.And(z3.ULT(k, N), sel([A.live(i) for i in range(N)], k + 1))
            if eng.feasible(s4, ck):
                s4.pc.append(ck); s4.model = None
                gm = find_fn(prog, 'Node', 'get_mut')
                for o5 in call_all(eng, s4, gm, [Ref(ccell, (('f', 0), ('i', S(k, 'usize'))))]):
                    if o5.kind != 'return': continue
                    r = o5.value
                    old = eng.deref(o5.state, r)
                    eng.store_ref(o5.state, r, Opq(old.e + 1))
                    for o6 in call_all(eng, o5.state, eq, [aref, Ref(ccell, ())]):
                        res['paths'] += 1
                        ob = [('C13.eq_detects_payload_difference', z3.Not(zb(o6.value)) if o6.kind == 'return' else F_)]
                        check_obligations(eng, list(o6.state.pc), ob, prefixes, res, mv)
                        # the write went to the addressed node only (C08: get_mut affects only the addressed node)
                        ob2 = specs.arena_equal(pre, View(o6.state.store[acell]), 'C08.get_mut_write_leaves_original')
                        check_obligations(eng, list(o6.state.pc), ob2, prefixes, res, mv)
    if eng.solver.check() == z3.sat:
        res['samples'].append({'harness': 'clone/eq', 'N': N, 'pre': A.model_dict(eng.solver.model())})
    res['feas_queries'] = eng.nq; res['solver_time'] += eng.tq; res['wall'] = time.time() - t0
    return res


def run_clear_job(prog, job):
    """clear() from any INV state = Arena::new() for every continuation: the state is field-wise the empty state with the
    capacity kept, and k allocations + appends from it return the same ids and states as from new()"""
    t0 = time.time()
    N = job['N']; K = job.get('K', 3)
    prefixes = tuple(p + '.' for p in job['props'])
    eng, A, st, acell = base_ctx(prog, N)
    res = new_result(job)
    if eng.solver.check() != z3.sat:
        res['vacuous'] = True; return res
    aref = Ref(acell, ())
    mv = mkviol(A, 'clear', N)
    # reference run from new()
    ref_states = []
    for o in call_all(eng, st, find_fn(prog, 'Arena', 'new'), []):
        if o.kind == 'return':
            s = o.state; c = s.new_cell(o.value); ref_states.append((s, c))
    if len(ref_states) != 1: raise Unsupported('Arena::new forked')
    capacity = find_fn(prog, 'Arena', 'capacity')
    cap_before = None
    for o in call_all(eng, st, capacity, [aref]):
        if o.kind == 'return': cap_before = zb(o.value)
    new_node = find_fn(prog, 'Arena', 'new_node'); append = find_fn(prog, 'NodeId', 'checked_append')

    def continuation(s, cell):
        """K allocations, then append node 2.. under node 1; returns list of (state, ids)"""
        runs = [(s, [])]
        for k in range(K):
            nxt = []
            for (s_, ids) in runs:
                for o in call_all(eng, s_, new_node, [Ref(cell, ()), Opq(BV8(100 + k))]):
                    if o.kind == 'return': nxt.append((o.state, ids + [o.value]))
            runs = nxt
        for k in range(1, K):
            nxt = []
            for (s_, ids) in runs:
                for o in call_all(eng, s_, append, [ids[0], ids[k], Ref(cell, ())]):
                    if o.kind == 'return': nxt.append((o.state, ids))
            runs = nxt
        # ... then one removal (the first node): its children are spliced out, its slot goes to the free list
        nxt = []
        for (s_, ids) in runs:
            for o in call_all(eng, s_, find_fn(prog, 'NodeId', 'remove'), [ids[0], Ref(cell, ())]):
                if o.kind == 'return': nxt.append((o.state, ids))
                else: nxt.append((o.state, None))
        return nxt
    (rs, rc) = ref_states[0]
    ref_runs = continuation(rs, rc)
    if len(ref_runs) != 1 or ref_runs[0][1] is None: raise Unsupported('reference continuation forked or panicked (%d)' % len(ref_runs))
    ref_state, ref_ids = ref_runs[0]
    Vref = View(ref_state.store[rc])
    for o in call_all(eng, st, find_fn(prog, 'Arena', 'clear'), [aref]):
        res['paths'] += 1; res['steps'] += o.state.steps
        if o.kind != 'return':
            check_obligations(eng, list(o.state.pc), [('C13.clear_no_panic', F_)], prefixes, res, mv); continue
        V = View(o.state.store[acell])
        ob = empty_obligations(V, 'clear')
        for o2 in call_all(eng, o.state, capacity, [aref]):
            if o2.kind == 'return' and cap_before is not None:
                ob.append(('C13.clear_keeps_capacity', zb(o2.value) == cap_before))
        check_obligations(eng, list(o.state.pc), ob, prefixes, res, mv)
        for (s2, ids) in continuation(o.state, acell):
            res['paths'] += 1; res['steps'] += s2.steps
            if ids is None:
                check_obligations(eng, list(s2.pc), [('C13.clear_continuation_no_panic', F_), ('C08.clear_continuation_no_panic', F_)], prefixes, res, mv); continue
            ob = []
            Vc = View(s2.store[acell])
            for k in range(1, K):
                # the nodes that were not removed keep their payload (C08), whatever was pending on the free list before clear()
                sl = zb(ids[k].f[0].f[0])
                ob.append(('C08.payload_kept_after_clear_continuation[%d]' % k, z3.And(sel(Vc.is_data, sl, F_), sel(Vc.data, sl, BV8(0)) == BV8(100 + k))))
            for k in range(K):
                ob.append(('C13.clear_same_ids_as_fresh[%d]' % k, z3.And(zb(ids[k].f[0].f[0]) == zb(ref_ids[k].f[0].f[0]),
                                                                             zb(ids[k].f[1].f[0]) == zb(ref_ids[k].f[1].f[0]))))
            ob += specs.arena_equal(Vref, View(s2.store[acell]), 'C13.clear_same_state_as_fresh')
            check_obligations(eng, list(s2.pc), ob, prefixes, res, mv)
            res['nontrivial'] += 1
    if eng.solver.check() == z3.sat:
        res['samples'].append({'harness': 'clear then %d allocations + appends vs fresh arena' % K, 'N': N, 'pre': A.model_dict(eng.solver.model())})
    res['feas_queries'] = eng.nq; res['solver_time'] += eng.tq; res['wall'] = time.time() - t0
    return res


def run_reserve_job(prog, job):
    """reserve(k) from any INV arena with ANY capacity >= count(): nothing observable changes, capacity() >= count()+k afterwards
    (Vec model: reserve / reserve_exact raise the capacity to the documented lower bound; the std side is the Kani harness)"""
    t0 = time.time()
    N = job['N']
    prefixes = tuple(p + '.' for p in job['props'])
    eng = Engine(prog, max_steps=20000)
    A = SymArena(N)
    for c in A.inv(): eng.solver.add(c)
    cap0 = z3.BitVec('cap0', 64)
    eng.solver.add(z3.UGE(cap0, N), z3.ULT(cap0, BV64(1 << 40)))
    st = State()
    acell = st.new_cell(A.value(cap=S(cap0, 'usize')))
    res = new_result(job)
    aref = Ref(acell, ())
    pre = View(A.value())
    k = z3.BitVec('reserve_k', 64)
    eng.solver.add(z3.ULT(k, BV64(1 << 40)))
    def mv(m, failed):
        d = mkviol(A, 'reserve', N)(m, failed)
        d['args'] = {'k': m.eval(k, model_completion=True).as_long(), 'cap0': m.eval(cap0, model_completion=True).as_long()}
        return d
    for o in call_all(eng, st, find_fn(prog, 'Arena', 'reserve'), [aref, S(k, 'usize')]):
        res['paths'] += 1; res['steps'] += o.state.steps
        if o.kind != 'return':
            check_obligations(eng, list(o.state.pc), [('C13.reserve_no_panic', F_)], prefixes, res, mv); continue
        ob = specs.arena_equal(pre, View(o.state.store[acell]), 'C13.reserve_changes_nothing')
        for o2 in call_all(eng, o.state, find_fn(prog, 'Arena', 'capacity'), [aref]):
            if o2.kind == 'return':
                ob.append(('C13.reserve_room_for_k_more', z3.UGE(zb(o2.value), BV64(N) + k)))
                ob.append(('C13.reserve_never_shrinks', z3.UGE(zb(o2.value), cap0)))
        check_obligations(eng, list(o.state.pc), ob, prefixes, res, mv)
        res['nontrivial'] += 1
    res['samples'].append({'harness': 'reserve(k), symbolic k and symbolic capacity >= count()', 'N': N})
    res['feas_queries'] = eng.nq; res['solver_time'] += eng.tq; res['wall'] = time.time() - t0
    return res


def confirm(prop, v):
    """native: clone/eq/clear/reserve on the model's pre-state"""
    import replay
    pre = v['pre']; N = len(pre['slots'])
    detail = {}; status = 'not_reproduced'
    for profile in ('dev', 'release'):
        lines = replay.construct_script(pre)
        n0 = len(lines)
        lines += ['arena_clone', 'arena_eq 0 1', 'arena_eq 1 0', 'arena_select 1', 'dump', 'arena_select 0', 'dump',
                  'reserve 7', 'capacity_ge %d' % (N + 7), 'dump', 'clear', 'count', 'new a 100', 'new b 101', 'new c 102', 'checked_append a b', 'checked_append a c', 'dump',
                  'arena_new', 'new a 100', 'new b 101', 'new c 102', 'checked_append a b', 'checked_append a c', 'dump']
        nprobe = len(lines)
        lines += ['arena_adjacent %d' % N] + replay.construct_script(pre)
        for k_ in (1, 2, 3, 1000, 100000): lines += ['reserve %d' % k_, 'capacity_ge %d' % (N + k_)]
        # ... and from an arena with unused capacity (the model's capacity and k, then a few fixed combinations)
        ka = (v.get('args') or {})
        for (c_, k_) in [(ka.get('cap0', N + 1), ka.get('k', 5))] + [(N + 1, 5), (N + 3, 4), (N + 4, 8), (2 * N + 4, N + 7)]:
            if c_ > 1 << 20 or k_ > 1 << 20: continue
            lines += ['arena_with_capacity %d' % c_] + replay.construct_script(pre) + ['reserve %d' % k_, 'capacity_ge %d' % (N + k_)]
        res = replay.run_script(lines, profile)
        def dump_at(k):
            r = res.get(k)
            try: return replay.parse_dump(r[1]) if r and r[0] == 'OK' else None
            except ValueError: return None
        got = dump_at(n0 - 1)
        ok = bool(got) and replay.same_state(got, pre)
        bad = []
        for k in (n0 + 1, n0 + 2):
            if res.get(k, ('', ''))[1].strip() != 'true': bad.append('%s -> %s' % (lines[k], res.get(k)))
        for k in (n0 + 4, n0 + 6, n0 + 9):
            d = dump_at(k)
            if not (d and replay.same_state(d, pre)): bad.append('state after %s differs from the original' % lines[k - 1])
        if res.get(n0 + 8, ('', ''))[1].strip() != 'true': bad.append('capacity after reserve')
        if res.get(n0 + 11, ('', ''))[1].strip() != '0': bad.append('count after clear: %s' % (res.get(n0 + 11),))
        for j in range(3):
            if res.get(n0 + 12 + j) != res.get(n0 + 19 + j): bad.append('id after clear %s vs fresh %s' % (res.get(n0 + 12 + j), res.get(n0 + 19 + j)))
        d1, d2 = dump_at(n0 + 17), dump_at(n0 + 24)
        if not (d1 and d2 and replay.same_state(d1, d2)): bad.append('continuation after clear differs from fresh arena')
        # clear() keeps the capacity, also when the arena had room to spare (twice in a row as well)
        for c_ in (N + 5, 64):
            lines += ['arena_with_capacity %d' % c_] + replay.construct_script(pre) + ['clear', 'capacity_ge %d' % c_, 'clear', 'capacity_ge %d' % c_]
        lines += ['arena_new'] + replay.construct_script(pre) + ['reserve 100', 'clear', 'capacity_ge %d' % (N + 100)]
        # with_capacity(n) for small and large n
        for n_ in (0, 1, 5, 4096, 4097, 100000):
            lines += ['arena_with_capacity %d' % n_, 'capacity_ge %d' % n_, 'count']
        res = replay.run_script(lines, profile)
        for k_ in range(nprobe, len(lines)):
            if lines[k_] == 'count' and lines[k_ - 2].startswith('arena_with_capacity') and res.get(k_, ('', ''))[1].strip() != '0': bad.append('count after %s: %s' % (lines[k_ - 2], res.get(k_)))
            if lines[k_].startswith('capacity_ge') and res.get(k_, ('', ''))[1].strip() != 'true': bad.append('%s after %s: %s' % (lines[k_], lines[k_ - 1], res.get(k_)))
        detail[profile] = {'pre_ok': ok, 'bad': bad[:8]}
        detail.setdefault('script', lines)
        if not ok:
            if status == 'not_reproduced': status = 'unreachable'
        elif bad: status = 'reproduced'
    return status, detail


def run_clone_from_job(prog, job):
    """dst.clone_from(&src) for two independent symbolic INV arenas (M and N slots): dst becomes field-wise equal to src, src is
    untouched, eq says true; a later removal in dst touches nothing but the removed node (C08) and get_node_id_at on dst
    answers as for src (C11). A crate that does not define clone_from uses core's default (`*self = source.clone()`)."""
    t0 = time.time()
    M, N = job['M'], job['N']
    prefixes = tuple(p + '.' for p in job['props'])
    res = new_result(job)
    has_own = any(t == 'Clone' for (t, f) in prog.methods.get(('Arena', 'clone_from'), []))
    eng = Engine(prog, max_steps=60000)
    D = SymArena(M, pfx='d_'); A = SymArena(N)
    for c in D.inv() + A.inv(): eng.solver.add(c)
    if eng.solver.check() != z3.sat:
        res['vacuous'] = True; return res
    st = State()
    dcell = st.new_cell(D.value(spare=N + 2)); acell = st.new_cell(A.value())
    src = View(A.value())
    mv = lambda m, failed: {'kind': 'custom', 'module': 'values', 'confirm': 'confirm_clone_from', 'checks': failed, 'op': 'clone_from', 'N': N, 'cfg': 'dev',
                            'pre': A.model_dict(m), 'dst': D.model_dict(m), 'role': 'clone_from', 'args': {}}
    if has_own: fn = find_trait_fn(prog, 'Arena', 'clone_from', 'Clone')
    else: fn = prog.free.get('default_clone_from')
    if fn is None: raise Unsupported('no clone_from')
    eq = find_trait_fn(prog, 'Arena', 'eq', 'PartialEq')
    for o in call_all(eng, st, fn, [Ref(dcell, ()), Ref(acell, ())]):
        res['paths'] += 1; res['steps'] += o.state.steps
        if o.kind != 'return':
            check_obligations(eng, list(o.state.pc), [('%s.clone_from_no_panic' % p_, F_) for p_ in job['props']], prefixes, res, mv); continue
        s = o.state
        Dv = View(s.store[dcell]); Sv = View(s.store[acell])
        ob = specs.arena_equal(src, Dv, 'C13.clone_from_equal') + specs.arena_equal(src, Sv, 'C13.clone_from_leaves_source')
        check_obligations(eng, list(s.pc), ob, prefixes, res, mv)
        res['nontrivial'] += 1
        for o2 in call_all(eng, s, eq, [Ref(dcell, ()), Ref(acell, ())]):
            res['paths'] += 1
            check_obligations(eng, list(o2.state.pc), [('C13.eq_after_clone_from', zb(o2.value) if o2.kind == 'return' else F_)], prefixes, res, mv)
        if Dv.N != N: continue
        # C11: positions of dst answer as positions of src
        pos = z3.BitVec('pos', 64)
        s1 = s.copy(); s1.pc.append(pos != 0); s1.model = None
        livearr = [src.live(i) for i in range(N)]
        for o3 in call_all(eng, s1, find_fn(prog, 'Arena', 'get_node_id_at'), [Ref(dcell, ()), Agg('NonZero', (S(pos, 'usize'),))]):
            res['paths'] += 1
            if o3.kind != 'return': continue
            import iters
            some, pay = iters.opt_parts(o3.value)
            exp = z3.And(z3.ULE(pos, N), sel(livearr, pos, F_)) if N else F_
            ob = [('C11.get_node_id_at_after_clone_from', some == exp)]
            if pay is not None:
                i_, s_ = iters.id_terms(pay)
                ob.append(('C11.get_node_id_at_id_after_clone_from', z3.Implies(some, z3.And(i_ == pos, s_ == sel(src.stamp, pos, BV16(0))))))
            check_obligations(eng, list(o3.state.pc), ob, prefixes, res, mv)
        # C08: a removal in the restored arena touches only the removed node's payload
        if N:
            x = z3.BitVec('x', 64)
            s2 = s.copy(); cx = z3.And(z3.UGE(x, 1), z3.ULE(x, N), sel(livearr, x))
            if eng.feasible(s2, cx):
                s2.pc.append(cx); s2.model = None
                for o4 in call_all(eng, s2, find_fn(prog, 'NodeId', 'remove'), [A.id_of(x), Ref(dcell, ())]):
                    res['paths'] += 1; res['steps'] += o4.state.steps
                    if o4.kind != 'return':
                        check_obligations(eng, list(o4.state.pc), [('C08.remove_after_clone_from_no_panic', F_)], prefixes, res, mv); continue
                    V4 = View(o4.state.store[dcell])
                    ob = []
                    for i in range(N):
                        ob.append(('C08.payload_kept_after_clone_from_and_remove[%d]' % (i + 1),
                                   z3.Implies(z3.And(src.live(i), x != i + 1), z3.And(V4.is_data[i], V4.data[i] == src.data[i])) if i < V4.N else F_))
                    check_obligations(eng, list(o4.state.pc), ob, prefixes, res, mv)
    if eng.solver.check() == z3.sat:
        m = eng.solver.model()
        res['samples'].append({'harness': 'dst.clone_from(&src)', 'own_clone_from_in_crate': has_own, 'dst': D.model_dict(m), 'src': A.model_dict(m)})
    res['feas_queries'] = eng.nq; res['solver_time'] += eng.tq; res['wall'] = time.time() - t0
    return res


def confirm_clone_from(prop, v):
    import replay
    pre = v['pre']; dst = v['dst']; N = len(pre['slots'])
    detail = {}; status = 'not_reproduced'
    for profile in ('dev', 'release'):
        l_dst = replay.construct_script(dst)
        l_src = replay.construct_script(pre)
        lines = l_dst + ['arena_new'] + l_src
        nd = len(l_dst) - 1; ns = len(lines) - 1
        lines += ['clone_from 0 1', 'arena_eq 0 1', 'arena_select 0', 'dump', 'arena_select 1', 'dump', 'arena_select 0']
        k0 = len(lines)
        for p in range(1, N + 2): lines.append('get_node_id_at %d' % p)
        live = [i + 1 for i, s_ in enumerate(pre['slots']) if s_['stamp'] >= 0]
        if live:
            lines += ['ghost_at w %d' % live[0], 'remove w', 'dump']
        res = replay.run_script(lines, profile)
        def dump_at(k):
            r = res.get(k)
            try: return replay.parse_dump(r[1]) if r and r[0] == 'OK' else None
            except ValueError: return None
        ok = bool(dump_at(nd)) and replay.same_state(dump_at(nd), dst) and bool(dump_at(ns)) and replay.same_state(dump_at(ns), pre)
        bad = []
        if res.get(ns + 1, ('', ''))[0] != 'OK': bad.append('clone_from: %s' % (res.get(ns + 1),))
        if res.get(ns + 2, ('', ''))[1].strip() != 'true': bad.append('dst == src after clone_from: %s' % (res.get(ns + 2),))
        d0, d1 = dump_at(ns + 4), dump_at(ns + 6)
        if not (d0 and replay.same_state(d0, pre)): bad.append('dst differs from the source state after clone_from')
        if not (d1 and replay.same_state(d1, pre)): bad.append('source changed by clone_from')
        for p in range(1, N + 2):
            r = res.get(k0 + p - 1)
            exp = 'NodeId{index1:%d,stamp:NodeStamp(%d)}' % (p, pre['slots'][p - 1]['stamp']) if (p <= N and pre['slots'][p - 1]['stamp'] >= 0) else 'None'
            if r is None or r[0] != 'OK' or r[1].strip() != exp: bad.append('get_node_id_at %d on dst: %s (expected %s)' % (p, r, exp))
        if live:
            r = res.get(len(lines) - 2)
            dl = dump_at(len(lines) - 1)
            if r is None or r[0] != 'OK': bad.append('remove after clone_from: %s' % (r,))
            elif dl:
                for i, s_ in enumerate(pre['slots']):
                    if s_['stamp'] >= 0 and i + 1 != live[0] and (dl['slots'][i].get('data') != s_.get('data') or not dl['slots'][i].get('is_data')):
                        bad.append('payload of live node %d destroyed by removing node %d after clone_from' % (i + 1, live[0]))
        detail[profile] = {'pre_ok': ok, 'bad': bad[:8]}
        detail.setdefault('script', lines)
        if not ok:
            if status == 'not_reproduced': status = 'unreachable'
        elif bad: status = 'reproduced'
    return status, detail
