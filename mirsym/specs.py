"""Relational specifications of the mutators over the (parent, prev) abstraction (DESIGN 4.3).
Every function returns a list of (name, formula); A = pre View, V = post View."""
import z3
from symarena import LINKS, sel, BV64, BV16, BV8, is_ancestor_or_self, opt_eq, I16MIN

F = z3.BoolVal(False)
T = z3.BoolVal(True)


def _ite_opt(c, a, b):
    """if c then option a else option b; options are (some, idx)"""
    return (z3.If(c, a[0], b[0]), z3.If(c, a[1], b[1]))


NONE = (F, BV64(0))


def some(ix): return (T, ix)


def detached(A, x):
    """(parent[i], prev[i]) arrays after detach(x) as lists of options, from pre View A"""
    par, prv = [], []
    px = A.link('prev', x)
    for i in range(A.N):
        me = i + 1
        isx = (x == me)
        par.append(_ite_opt(isx, NONE, (A.some['parent'][i], A.idx['parent'][i])))
        follows_x = z3.And(A.some['prev'][i], A.idx['prev'][i] == x)
        prv.append(_ite_opt(isx, NONE, _ite_opt(follows_x, px, (A.some['prev'][i], A.idx['prev'][i]))))
    return par, prv


def _sel_opt(arr, x):
    return (sel([a[0] for a in arr], x), sel([a[1] for a in arr], x))


def frame_identity(A, V, names=('C06', 'C08'), changed_live=None):
    """stamps, liveness and payloads of all pre-existing slots unchanged (unless listed as changed)"""
    out = []
    for i in range(A.N):
        me = i + 1
        exc = changed_live(i) if changed_live else F
        out.append(('C06.stamp_frame[%d]' % me, z3.Or(exc, V.stamp[i] == A.stamp[i])))
        out.append(('C08.payload_frame[%d]' % me, z3.Implies(z3.And(A.live(i), V.live(i), z3.Not(exc)),
                                                             z3.And(V.is_data[i], V.data[i] == A.data[i]))))
    return out


def freelist_frame(A, V):
    out = [('C07.freelist_frame', z3.And(opt_eq(V.ff_some, V.ff_idx, A.ff_some, A.ff_idx),
                                         opt_eq(V.lf_some, V.lf_idx, A.lf_some, A.lf_idx)))]
    for i in range(A.N):
        out.append(('C07.nextfree_frame[%d]' % (i + 1), z3.Implies(z3.Not(A.live(i)),
                    z3.And(z3.Not(V.is_data[i]), opt_eq(V.nf_some[i], V.nf_idx[i], A.nf_some[i], A.nf_idx[i])))))
    out.append(('C07.count_frame', T if V.N == A.N else F))
    return out


def links_equal(A, V, label='C03.unchanged'):
    """all five links of all slots identical (used for no-op / error paths)"""
    out = []
    for i in range(A.N):
        for L in LINKS:
            out.append(('%s[%d.%s]' % (label, i + 1, L),
                        z3.And(V.some[L][i] == A.some[L][i],
                               z3.Implies(A.some[L][i], z3.And(V.idx[L][i] == A.idx[L][i], V.lst[L][i] == A.lst[L][i])))))
    return out


def arena_equal(A, V, label):
    """field-by-field equality of two arena views"""
    if A.N != V.N: return [(label + '.count', F)]
    out = links_equal(A, V, label + '.links')
    for i in range(A.N):
        out.append(('%s.stamp[%d]' % (label, i + 1), V.stamp[i] == A.stamp[i]))
        out.append(('%s.data[%d]' % (label, i + 1), z3.And(V.is_data[i] == A.is_data[i],
                    z3.Implies(A.is_data[i], V.data[i] == A.data[i]),
                    z3.Implies(z3.Not(A.is_data[i]), opt_eq(V.nf_some[i], V.nf_idx[i], A.nf_some[i], A.nf_idx[i])))))
    out.append((label + '.free_ends', z3.And(opt_eq(V.ff_some, V.ff_idx, A.ff_some, A.ff_idx),
                                             opt_eq(V.lf_some, V.lf_idx, A.lf_some, A.lf_idx))))
    return out


def abs_equal(V, par, prv, label, only=None):
    """post (parent, prev) of every slot equals the given option arrays; link stamps are covered by INV(post)"""
    out = []
    for i in range(len(par)):
        g = only(i) if only else T
        out.append(('%s.parent[%d]' % (label, i + 1), z3.Implies(g, opt_eq(V.some['parent'][i], V.idx['parent'][i], par[i][0], par[i][1]))))
        out.append(('%s.prev[%d]' % (label, i + 1), z3.Implies(g, opt_eq(V.some['prev'][i], V.idx['prev'][i], prv[i][0], prv[i][1]))))
    return out


def derived_links(par, prv, live):
    """next / first / last of every slot, derived from the expected (parent, prev) arrays of the slots in `live`
    (lists of z3 Bool): next[i] = the j whose prev is i; first[i] = the child of i without prev; last[i] = the child of i
    that is nobody's prev."""
    n = len(par)
    nxt, fst, lst = [], [], []
    for i in range(n):
        me = i + 1
        s_, ix = F, BV64(0)
        for j in range(n):
            c = z3.And(live[j], prv[j][0], prv[j][1] == me)
            s_ = z3.Or(s_, c); ix = z3.If(c, BV64(j + 1), ix)
        nxt.append((s_, ix))
    for i in range(n):
        me = i + 1
        fs, fi, ls, li = F, BV64(0), F, BV64(0)
        for j in range(n):
            child = z3.And(live[j], par[j][0], par[j][1] == me)
            cf = z3.And(child, z3.Not(prv[j][0]))
            cl = z3.And(child, z3.Not(nxt[j][0]))
            fs = z3.Or(fs, cf); fi = z3.If(cf, BV64(j + 1), fi)
            ls = z3.Or(ls, cl); li = z3.If(cl, BV64(j + 1), li)
        fst.append((fs, fi)); lst.append((ls, li))
    return {'next': nxt, 'first': fst, 'last': lst}


def full_equal(V, par, prv, live, label, only=None):
    """all five links of every (selected) slot equal what the expected (parent, prev) arrays imply"""
    out = abs_equal(V, par, prv, label, only=only)
    d = derived_links(par, prv, live)
    for L in ('next', 'first', 'last'):
        for i in range(len(par)):
            g = only(i) if only else T
            out.append(('%s.%s[%d]' % (label, L, i + 1), z3.Implies(g, opt_eq(V.some[L][i], V.idx[L][i], d[L][i][0], d[L][i][1]))))
    return out


def spec_detach(A, V, x):
    par, prv = detached(A, x)
    return full_equal(V, par, prv, [A.live(i) for i in range(A.N)], 'C03.detach', only=lambda i: A.live(i))


def spec_insert(op, A, V, t, x):
    """op in append/prepend/insert_after/insert_before; t = self (target), x = moved node"""
    npar, nprv = insert_abstraction(op, A, t, x)
    return full_equal(V, npar, nprv, [A.live(i) for i in range(A.N)], 'C03.' + op, only=lambda i: A.live(i))


def insert_abstraction(op, A, t, x):
    """expected (parent, prev) arrays after a successful insert"""
    par, prv = detached(A, x)
    N = A.N
    npar, nprv = [], []
    pt = A.link('parent', t)                      # t != x, so detach(x) does not change t's parent
    if op == 'append':
        # last child of t after detaching x
        lt = A.link('last', t)
        lt_after = _ite_opt(z3.And(lt[0], lt[1] == x), A.link('prev', x), lt)
        for i in range(N):
            isx = (x == i + 1)
            npar.append(_ite_opt(isx, some(t), par[i]))
            nprv.append(_ite_opt(isx, lt_after, prv[i]))
    elif op == 'prepend':
        for i in range(N):
            isx = (x == i + 1)
            was_first = z3.And(par[i][0], par[i][1] == t, z3.Not(prv[i][0]), z3.Not(isx))
            npar.append(_ite_opt(isx, some(t), par[i]))
            nprv.append(_ite_opt(isx, NONE, _ite_opt(was_first, some(x), prv[i])))
    elif op == 'insert_after':
        for i in range(N):
            isx = (x == i + 1)
            followed_t = z3.And(prv[i][0], prv[i][1] == t, z3.Not(isx))
            npar.append(_ite_opt(isx, pt, par[i]))
            nprv.append(_ite_opt(isx, some(t), _ite_opt(followed_t, some(x), prv[i])))
    elif op == 'insert_before':
        prev_t = _sel_opt(prv, t)
        for i in range(N):
            isx = (x == i + 1)
            ist = (t == i + 1)
            npar.append(_ite_opt(isx, pt, par[i]))
            nprv.append(_ite_opt(isx, prev_t, _ite_opt(ist, some(x), prv[i])))
    else:
        raise ValueError(op)
    return npar, nprv


def spec_append_new(A, V, t, newidx):
    """append_value: the freshly allocated slot newidx (1-based term) becomes last child of t; all five links of every live
    slot are what the (parent, prev) arrays imply"""
    lt = A.link('last', t)
    n = V.N
    par, prv, live = [], [], []
    for i in range(n):
        isnew = (newidx == i + 1)
        if i < A.N:
            oldp = (A.some['parent'][i], A.idx['parent'][i]); oldv = (A.some['prev'][i], A.idx['prev'][i]); wl = A.live(i)
        else:
            oldp = NONE; oldv = NONE; wl = F
        par.append(_ite_opt(isnew, some(t), oldp)); prv.append(_ite_opt(isnew, lt, oldv))
        live.append(z3.Or(isnew, wl))
    return full_equal(V, par, prv, live, 'C03.append_value', only=lambda i: live[i])


def subtree_member(A, x):
    """list over slots: slot i is x or a descendant of x in the pre-state"""
    return [z3.And(A.live(i), is_ancestor_or_self(A, x, BV64(i + 1))) for i in range(A.N)]


def spec_remove(A, V, x):
    N = A.N
    px = A.link('parent', x); vx = A.link('prev', x); lx = A.link('last', x)
    npar, nprv = [], []
    for i in range(N):
        isx = (x == i + 1)
        child = z3.And(A.some['parent'][i], A.idx['parent'][i] == x)
        firstchild = z3.And(child, z3.Not(A.some['prev'][i]))
        follows = z3.And(A.some['prev'][i], A.idx['prev'][i] == x)
        npar.append(_ite_opt(child, px, (A.some['parent'][i], A.idx['parent'][i])))
        nprv.append(_ite_opt(firstchild, vx, _ite_opt(follows, _ite_opt(lx[0], lx, vx), (A.some['prev'][i], A.idx['prev'][i]))))
    notx = lambda i: z3.And(x != i + 1, A.live(i))
    out = full_equal(V, npar, nprv, [notx(i) for i in range(N)], 'C04.remove', only=notx)
    for i in range(N):
        isx = (x == i + 1)
        out.append(('C04.remove.exactly_x[%d]' % (i + 1), V.live(i) == z3.And(A.live(i), z3.Not(isx))))
    return out


def spec_remove_subtree(A, V, x):
    par, prv = detached(A, x)
    mem = subtree_member(A, x)
    surv = lambda i: z3.And(A.live(i), z3.Not(mem[i]))
    out = full_equal(V, par, prv, [surv(i) for i in range(A.N)], 'C04.remove_subtree', only=surv)
    for i in range(A.N):
        out.append(('C04.remove_subtree.exactly_subtree[%d]' % (i + 1), V.live(i) == z3.And(A.live(i), z3.Not(mem[i]))))
    return out


def impossible(A, t, x):
    """the insert of x relative to t is impossible: same node, either removed, or x is an ancestor(-or-self) of t"""
    lt = sel([A.live(i) for i in range(A.N)], t)
    lx = sel([A.live(i) for i in range(A.N)], x)
    return z3.Or(t == x, z3.Not(lt), z3.Not(lx), is_ancestor_or_self(A, x, t))
