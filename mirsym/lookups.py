"""C11: ids, positions, references and the slot view agree (get / Index / get_mut / get_node_id / get_node_id_at /
conversions / Display / count / as_slice / iter / is_empty), from an arbitrary INV arena."""
import time
import z3
from engine import *
from symarena import *
import harness, iters, fmtmodel
from harness import find_fn
from iters import new_result, check_obligations
from multistep import call_all

T_, F_ = z3.BoolVal(True), z3.BoolVal(False)


def slot_of_ref(r, acell):
    """index term (0-based) of a reference into the node vector of the arena, or None"""
    if not isinstance(r, Ref) or r.cell != acell or len(r.path) != 2: return None
    if r.path[0] != ('f', 0) or r.path[1][0] != 'i': return None
    return bv(r.path[1][1].v, 'usize')


def find_trait_fn(prog, head, meth, trait, ret_head=None):
    c = [f for (t, f) in prog.methods.get((head, meth), []) if t == trait]
    if ret_head: c = [f for f in c if ret_head in f.ret]
    if not c: raise Unsupported('no <%s as %s>::%s in MIR' % (head, trait, meth))
    return c[0]


def run_lookup_job(prog, job):
    t0 = time.time()
    N, size = job['N'], job['size']
    fmtmodel.install()
    prefixes = tuple(p + '.' for p in job['props'])
    eng = Engine(prog, max_steps=20000)
    A = SymArena(N)
    for c in A.inv(): eng.solver.add(c)
    st = State()
    cap0 = z3.BitVec('cap0', 64)               # any capacity >= count(): a full Vec (capacity == len) is as reachable as one with room
    eng.solver.add(z3.UGE(cap0, N), z3.ULT(cap0, BV64(1 << 40)))
    acell = st.new_cell(A.value(cap=S(cap0, 'usize')))
    pre = View(A.value())
    aref = Ref(acell, ())
    res = new_result(job)
    # ---- address model: the node buffer is one allocation at `base`, element i at base + i*size; any other object
    # (a node of another arena) occupies `size` bytes at `faddr`, disjoint from the N initialised elements (a full Vec: capacity == len, so the
    # foreign object may start exactly one-past-the-end)
    base = z3.BitVec('vecbase', 64); faddr = z3.BitVec('foreign_addr', 64)
    eng.node_size = size
    lim = BV64(1 << 62)
    eng.solver.add(z3.UGE(base, 8), z3.ULT(base, lim), z3.ULT(faddr, lim), z3.UGE(faddr, 8))
    eng.solver.add(z3.Or(z3.ULE(faddr + size, base), z3.UGE(faddr, base + size * N)))
    fcell = st.new_cell(Agg('Node', [En('Option', S(0, 'isize'), {0: ()})] * 5 + [Agg('NodeStamp', (S(0, 'i16'),)), En('NodeData', S(0, 'isize'), {0: (Opq(BV8(0)),)})]))

    def addr_of(st_, ref):
        if ref.cell == acell and len(ref.path) == 2 and ref.path[0] == ('f', 0) and ref.path[1][0] == 'i':
            return base + bv(ref.path[1][1].v, 'usize') * size
        if ref.cell == fcell and not ref.path: return faddr
        raise Unsupported('address of %r' % (ref,))
    eng.addr_of = addr_of
    # ---- the queried id: any index >= 1 (in range or not), any stamp; the queried position: any non-zero usize
    qi = z3.BitVec('qi', 64); qs = z3.BitVec('qs', 16); pos = z3.BitVec('pos', 64)
    eng.solver.add(qi != 0, pos != 0)
    if eng.solver.check() != z3.sat:
        res['vacuous'] = True; return res
    qid = mk_id(qi, qs)
    in_range = z3.ULE(qi, N)
    cov = {'id_out_of_range': False, 'pos_out_of_range': False, 'pos_removed': False, 'pos_live_recycled': False, 'foreign_node': False}

    def mkv(name):
        return lambda m, failed: {'kind': 'custom', 'module': 'lookups', 'confirm': 'confirm', 'checks': failed, 'op': name, 'N': N, 'cfg': 'dev',
                                  'pre': A.model_dict(m), 'role': name,
                                  'args': {'qi': m.eval(qi, model_completion=True).as_long(), 'pos': m.eval(pos, model_completion=True).as_long(),
                                           'cap0': m.eval(cap0, model_completion=True).as_long()}}

    def run(fn, args, name, obl):
        for o in call_all(eng, st, fn, args):
            res['paths'] += 1; res['steps'] += o.state.steps
            ob = obl(o)
            if o.kind == 'return': res['nontrivial'] += 1
            check_obligations(eng, list(o.state.pc), ob, prefixes, res, mkv(name))

    # 1/3. get, get_mut
    for meth in ('get', 'get_mut'):
        def obl(o, meth=meth):
            if o.kind != 'return': return [('C11.%s_no_panic' % meth, F_)]
            some, pay = iters.opt_parts(o.value)
            ob = [('C11.%s_some_iff_in_range' % meth, some == in_range)]
            sl = slot_of_ref(pay, acell) if pay is not None else None
            ob.append(('C11.%s_addresses_slot_of_id' % meth, z3.Implies(some, (sl == qi - 1) if sl is not None else F_)))
            return ob
        run(find_fn(prog, 'Arena', meth), [aref, qid], meth, obl)
    if eng.solver.check(z3.Not(in_range)) == z3.sat: cov['id_out_of_range'] = True
    # 2. Index / IndexMut
    for (meth, trait) in (('index', 'Index'), ('index_mut', 'IndexMut')):
        def obl(o, meth=meth):
            if o.kind != 'return': return [('C11.%s_panics_only_out_of_range' % meth, z3.Not(in_range))]
            sl = slot_of_ref(o.value, acell)
            return [('C11.%s_addresses_slot_of_id' % meth, z3.And(in_range, (sl == qi - 1) if sl is not None else F_))]
        run(find_trait_fn(prog, 'Arena', meth, trait), [aref, qid], meth, obl)
    # 4. get_node_id of the node stored in slot k (every k in range) and of a foreign node
    gni = find_fn(prog, 'Arena', 'get_node_id')
    k = z3.BitVec('k', 64)
    eng.solver.push(); eng.solver.add(z3.ULT(k, N))
    if eng.solver.check() == z3.sat:
        def obl(o):
            if o.kind != 'return': return [('C11.get_node_id_no_panic', F_)]
            some, pay = iters.opt_parts(o.value)
            if pay is None: return [('C11.get_node_id_finds_own_node', F_)]
            i_, s_ = iters.id_terms(pay)
            return [('C11.get_node_id_finds_own_node', z3.And(some, i_ == k + 1, s_ == sel(pre.stamp, k + 1)))]
        run(gni, [aref, Ref(acell, (('f', 0), ('i', S(k, 'usize'))))], 'get_node_id', obl)
    eng.solver.pop()
    def obl(o):
        if o.kind != 'return': return [('C11.get_node_id_no_panic', F_)]
        some, pay = iters.opt_parts(o.value)
        return [('C11.get_node_id_none_for_foreign_node', z3.Not(some))]
    run(gni, [aref, Ref(fcell, ())], 'get_node_id_foreign', obl)
    cov['foreign_node'] = True
    # C08: Node::get / get_mut of the node in slot k address exactly that node's payload (reads and writes go nowhere else)
    eng.solver.push(); eng.solver.add(z3.ULT(k, N))
    if N: eng.solver.add(sel([pre.live(i) for i in range(N)], k + 1))
    if N and eng.solver.check() == z3.sat:
        for meth in ('get', 'get_mut'):
            def obl(o, meth=meth):
                if o.kind != 'return': return [('C08.node_%s_no_panic' % meth, F_)]
                r = o.value
                ok = isinstance(r, Ref) and r.cell == acell and len(r.path) == 5 and r.path[0] == ('f', 0) and r.path[1][0] == 'i' and r.path[2] == ('f', 6) \
                    and r.path[3] == ('v', 'Data') and r.path[4] == ('f', 0)
                if not ok: return [('C08.node_%s_addresses_own_payload' % meth, F_)]
                return [('C08.node_%s_addresses_own_payload' % meth, bv(r.path[1][1].v, 'usize') == k)]
            run(find_fn(prog, 'Node', meth), [Ref(acell, (('f', 0), ('i', S(k, 'usize'))))], 'node_' + meth, obl)
    eng.solver.pop()
    # 5. get_node_id_at(pos)
    livearr = [pre.live(i) for i in range(N)]
    def obl(o):
        if o.kind != 'return': return [('C11.get_node_id_at_no_panic', F_)]
        some, pay = iters.opt_parts(o.value)
        expect_some = z3.And(z3.ULE(pos, N), sel(livearr, pos, F_)) if N else F_
        ob = [('C11.get_node_id_at_some_iff_live_in_range', some == expect_some)]
        if pay is not None:
            i_, s_ = iters.id_terms(pay)
            ob.append(('C11.get_node_id_at_returns_current_id', z3.Implies(some, z3.And(i_ == pos, s_ == sel(pre.stamp, pos, BV16(0))))))
        return ob
    run(find_fn(prog, 'Arena', 'get_node_id_at'), [aref, Agg('NonZero', (S(pos, 'usize'),))], 'get_node_id_at', obl)
    if eng.solver.check(z3.UGT(pos, N)) == z3.sat: cov['pos_out_of_range'] = True
    if N and eng.solver.check(z3.ULE(pos, N), z3.Not(sel(livearr, pos))) == z3.sat: cov['pos_removed'] = True
    if N and eng.solver.check(z3.ULE(pos, N), sel(livearr, pos), sel(pre.stamp, pos) > 0) == z3.sat: cov['pos_live_recycled'] = True
    # 6. conversions
    for (rh, lab) in (('usize', 'usize_from'), ('NonZero', 'nonzero_from')):
        def obl(o, lab=lab):
            if o.kind != 'return': return [('C11.%s_no_panic' % lab, F_)]
            v = o.value
            if isinstance(v, Agg) and v.ty == 'NonZero': v = v.f[0]
            return [('C11.%s_is_position' % lab, zb(v) == qi)]
        run(find_trait_fn(prog, 'NodeId', 'from', 'From', ret_head=rh), [qid], lab, obl)
    # 7. Display: formats exactly index1 with "{}"
    dfn = [f for (t, f) in prog.methods.get(('NodeId', 'fmt'), []) if t == 'Display']
    if not dfn: raise Unsupported('no Display for NodeId')
    idcell = st.new_cell(qid); fmtcell = st.new_cell(Agg('Formatter', (S(False, 'bool'), S(z3.Bool('fmt_has_width'), 'bool'), S(z3.Bool('fmt_has_precision'), 'bool'))))
    tp = fmtmodel.templates(prog)
    def obl(o):
        if o.kind != 'return': return [('C11.display_no_panic', F_)]
        out = getattr(o.state, 'out', ())
        good = len(out) == 1 and out[0][0] == 'arg' and out[0][1] == tp['display'] and out[0][2] == 'display' and isinstance(out[0][3], S)
        # equally good: the text of the position handed to Formatter::pad (position with the caller's padding)
        padded = len(out) == 1 and out[0][0] == 'pad' and isinstance(out[0][1], fmtmodel.SymDisplay)
        ob = [('C11.display_is_plain_position_format', z3.BoolVal(good or padded))]
        if good: ob.append(('C11.display_shows_position', zb(out[0][3]) == qi))
        if padded: ob.append(('C11.display_shows_position', zb(out[0][1].val) == qi))
        return ob
    run(dfn[0], [Ref(idcell, ()), Ref(fmtcell, ())], 'display', obl)
    # 8. count / as_slice / iter / iter_mut / is_empty
    def obl_count(o):
        return [('C11.count_is_number_of_slots', zb(o.value) == N)] if o.kind == 'return' else [('C11.count_no_panic', F_)]
    run(find_fn(prog, 'Arena', 'count'), [aref], 'count', obl_count)
    def obl_slice(o):
        if o.kind != 'return': return [('C11.as_slice_no_panic', F_)]
        r = o.value
        ok = isinstance(r, Ref) and r.cell == acell and r.path == (('f', 0),)
        return [('C11.as_slice_is_the_node_storage', z3.BoolVal(ok))]
    run(find_fn(prog, 'Arena', 'as_slice'), [aref], 'as_slice', obl_slice)
    for meth in ('iter', 'iter_mut'):
        def obl_iter(o, meth=meth):
            if o.kind != 'return': return [('C11.%s_no_panic' % meth, F_)]
            it = o.value
            ok = isinstance(it, Agg) and it.ty == 'SliceIter' and it.f[0].cell == acell and it.f[0].path == (('f', 0),)
            if not ok: return [('C11.%s_covers_all_slots' % meth, F_)]
            return [('C11.%s_covers_all_slots' % meth, z3.And(zb(it.f[1]) == 0, zb(it.f[2]) == N))]
        run(find_fn(prog, 'Arena', meth), [aref], meth, obl_iter)
    def obl_empty(o):
        return [('C11.is_empty_iff_count_zero', zb(o.value) == z3.BoolVal(N == 0))] if o.kind == 'return' else [('C11.is_empty_no_panic', F_)]
    run(find_fn(prog, 'Arena', 'is_empty'), [aref], 'is_empty', obl_empty)
    res['coverage'] = {k_: v for k_, v in cov.items() if N >= 2 or k_ in ('id_out_of_range', 'pos_out_of_range', 'foreign_node')}
    if eng.solver.check() == z3.sat:
        m = eng.solver.model()
        res['samples'].append({'harness': 'lookups', 'N': N, 'node_size': size, 'queried_index': m.eval(qi, model_completion=True).as_long(),
                               'queried_position': m.eval(pos, model_completion=True).as_long(), 'pre': A.model_dict(m)})
    res['feas_queries'] = eng.nq; res['solver_time'] += eng.tq
    res['wall'] = time.time() - t0
    return res


def confirm(prop, v):
    """native: the lookup paths of every slot, positions beyond the end, a foreign node - also one that lies directly behind
    the storage of a full arena (the replayer runs on a bump allocator, so the layout can be arranged)"""
    import replay, re
    pre = v['pre']; N = len(pre['slots'])
    detail = {}; status = 'not_reproduced'
    for profile in ('dev', 'release'):
        lines = ['arena_adjacent %d' % N] + replay.construct_script(pre)
        n0 = len(lines)
        for i in range(N): lines.append('lookup s%d' % (i + 1))
        for p in range(1, N + 3): lines.append('get_node_id_at %d' % p)
        lines += ['is_empty', 'foreign_get_node_id 2 foreign', 'arena_new', 'new f 1', 'arena_select 1', 'foreign_get_node_id 3 f']
        res = replay.run_script(lines, profile)
        d = res.get(n0 - 1)
        try: got = replay.parse_dump(d[1]) if d and d[0] == 'OK' else None
        except ValueError: got = None
        ok = bool(got) and replay.same_state(got, pre)
        bad = []
        for i in range(N):
            r = res.get(n0 + i); s = pre['slots'][i]
            cur = 'NodeId{index1:%d,stamp:NodeStamp(%d)}' % (i + 1, s['stamp'])
            exp = 'get=Some(%d) index=%d get_mut=Some(%d) get_node_id=%s get_node_id_at=%s usize=%d nz=%d display=%d count=%d slice_len=%d iter_count=%d' % (
                i, i, i, cur, cur if s['stamp'] >= 0 else 'None', i + 1, i + 1, i + 1, N, N, N)
            if r is None or r[0] != 'OK' or r[1].strip() != exp: bad.append('slot %d: %s (expected %s)' % (i + 1, r, exp))
        for p in range(1, N + 3):
            r = res.get(n0 + N + p - 1)
            exp = 'NodeId{index1:%d,stamp:NodeStamp(%d)}' % (p, pre['slots'][p - 1]['stamp']) if (p <= N and pre['slots'][p - 1]['stamp'] >= 0) else 'None'
            if r is None or r[0] != 'OK' or r[1].strip() != exp: bad.append('get_node_id_at %d: %s (expected %s)' % (p, r, exp))
        r = res.get(n0 + N + N + 2)
        if r is None or r[1].strip() != ('true' if N == 0 else 'false'): bad.append('is_empty: %s' % (r,))
        for k in (n0 + 2 * N + 3, len(lines) - 1):
            r = res.get(k)
            if r is None or r[0] != 'OK' or r[1].strip() != 'None': bad.append('%s: %s (layout: %s)' % (lines[k], r, res.get(0)))
        detail[profile] = {'pre_ok': ok, 'bad': bad[:8], 'layout': res.get(0)}
        detail.setdefault('script', lines)
        if not ok:
            if status == 'not_reproduced': status = 'unreachable'
        elif bad: status = 'reproduced'
    return status, detail


# ---- embedded variant: the modelled slots sit at symbolic positions of a long arena (positions up to 2^17)

def run_lookup_embedded_job(prog, job):
    """get / Index / get_node_id / get_node_id_at with the N modelled slots at symbolic positions at_1 < ... < at_N of an arena of
    symbolic length <= 2^17 (other slots not modelled): the queried id / position denotes one of the modelled slots or lies beyond
    the end.  Covers lookups whose result depends on absolute slot numbers (truncation of a position, pointer-offset arithmetic)."""
    t0 = time.time()
    N, size = job['N'], job['size']
    fmtmodel.install()
    prefixes = tuple(p + '.' for p in job['props'])
    eng = Engine(prog, max_steps=20000)
    A = SymArena(N)
    for c in A.inv(): eng.solver.add(c)
    for c in A.embed(iters.EMBED_MAXLEN): eng.solver.add(c)
    iters.UNMAP = None
    eng.havoc_elem = A.havoc_node
    iters.PREFER = [z3.ULT(A.at[-1], 300), z3.ULE(A.vlen, A.at[-1] + 2)]
    st = State()
    acell = st.new_cell(A.value(embedded=True))
    pre = View(A.value())
    aref = Ref(acell, ())
    res = new_result(job)
    base = z3.BitVec('vecbase', 64)
    eng.node_size = size
    eng.solver.add(z3.UGE(base, 8), z3.ULT(base, BV64(1 << 62)))
    def addr_of(st_, ref):
        if ref.cell == acell and len(ref.path) == 2 and ref.path[0] == ('f', 0) and ref.path[1][0] == 'i':
            return base + bv(ref.path[1][1].v, 'usize') * size
        raise Unsupported('address of %r' % (ref,))
    eng.addr_of = addr_of
    k = z3.BitVec('k', 64)                      # abstract slot number 1..N of the queried node
    beyond = z3.Bool('beyond')                  # or: a position beyond the end
    far = z3.BitVec('far', 64)
    eng.solver.add(z3.UGE(k, 1), z3.ULE(k, N), z3.UGT(far, A.vlen), far != 0)
    qreal = z3.If(beyond, far, A.to_real(k))    # 1-based real position
    qs = z3.BitVec('qs', 16)
    if eng.solver.check() != z3.sat:
        res['vacuous'] = True; return res
    qid = mk_id(qreal, qs)

    def mkv(name):
        return lambda m, failed: {'kind': 'custom', 'module': 'lookups', 'confirm': 'confirm_embedded', 'checks': failed, 'op': name, 'N': N, 'cfg': 'dev',
                                  'pre': A.model_dict(m), 'role': name + '_embedded', 'args': {'k': m.eval(k, model_completion=True).as_long()}}

    def run(fn, args, name, obl):
        for o in call_all(eng, st, fn, args):
            res['paths'] += 1; res['steps'] += o.state.steps
            if o.kind == 'return': res['nontrivial'] += 1
            check_obligations(eng, list(o.state.pc), obl(o), prefixes, res, mkv(name))

    in_range = z3.Not(beyond)
    for meth in ('get', 'get_mut'):
        def obl(o, meth=meth):
            if o.kind != 'return': return [('C11.%s_no_panic' % meth, F_)]
            some, pay = iters.opt_parts(o.value)
            ob = [('C11.%s_some_iff_in_range' % meth, some == in_range)]
            sl = slot_of_ref(pay, acell) if pay is not None else None
            ob.append(('C11.%s_addresses_slot_of_id' % meth, z3.Implies(some, (sl == qreal - 1) if sl is not None else F_)))
            return ob
        run(find_fn(prog, 'Arena', meth), [aref, qid], meth, obl)
    def obl(o):
        if o.kind != 'return': return [('C11.index_panics_only_out_of_range', z3.Not(in_range))]
        sl = slot_of_ref(o.value, acell)
        return [('C11.index_addresses_slot_of_id', z3.And(in_range, (sl == qreal - 1) if sl is not None else F_))]
    run(find_trait_fn(prog, 'Arena', 'index', 'Index'), [aref, qid], 'index', obl)
    # get_node_id of the node stored in modelled slot k
    for kk in range(N):
        # one modelled slot at a time (keeps the pointer-offset arithmetic free of the slot selector)
        eng.solver.push(); eng.solver.add(z3.Not(beyond), k == kk + 1)
        def obl(o, kk=kk):
            if o.kind != 'return': return [('C11.get_node_id_no_panic', F_)]
            some, pay = iters.opt_parts(o.value)
            if pay is None: return [('C11.get_node_id_finds_own_node', F_)]
            i_, s_ = iters.id_terms(pay)
            return [('C11.get_node_id_finds_own_node', z3.And(some, i_ == A.at[kk] + 1, s_ == pre.stamp[kk]))]
        run(find_fn(prog, 'Arena', 'get_node_id'), [aref, Ref(acell, (('f', 0), ('i', S(A.at[kk], 'usize'))))], 'get_node_id', obl)
        eng.solver.pop()
    # get_node_id_at(position)
    livek = sel([pre.live(i) for i in range(N)], k)
    def obl(o):
        if o.kind != 'return': return [('C11.get_node_id_at_no_panic', F_)]
        some, pay = iters.opt_parts(o.value)
        ob = [('C11.get_node_id_at_some_iff_live_in_range', some == z3.And(in_range, livek))]
        if pay is not None:
            i_, s_ = iters.id_terms(pay)
            ob.append(('C11.get_node_id_at_returns_current_id', z3.Implies(some, z3.And(i_ == qreal, s_ == sel(pre.stamp, k)))))
        return ob
    run(find_fn(prog, 'Arena', 'get_node_id_at'), [aref, Agg('NonZero', (S(qreal, 'usize'),))], 'get_node_id_at', obl)
    def obl_count(o):
        return [('C11.count_is_number_of_slots', zb(o.value) == A.vlen)] if o.kind == 'return' else [('C11.count_no_panic', F_)]
    run(find_fn(prog, 'Arena', 'count'), [aref], 'count', obl_count)
    res['coverage'] = {}
    if eng.solver.check(*iters.PREFER) == z3.sat:
        m = eng.solver.model()
        res['samples'].append({'harness': 'lookups (embedded)', 'N': N, 'node_size': size, 'pre': A.model_dict(m)})
    iters.PREFER = []
    res['feas_queries'] = eng.nq; res['solver_time'] += eng.tq
    res['wall'] = time.time() - t0
    return res


def confirm_embedded(prop, v):
    import replay
    pre = v['pre']; N = len(pre['slots']); at = pre['at']; vlen = pre['vlen']
    detail = {}; status = 'not_reproduced'
    for profile in ('dev', 'release'):
        lines = replay.construct_script(pre)
        n0 = len(lines)
        for i in range(N): lines.append('lookup s%d' % (i + 1))
        for p in [a + 1 for a in at] + [vlen + 1, vlen + 7]: lines.append('get_node_id_at %d' % p)
        res = replay.run_script(lines, profile, timeout=120)
        d = res.get(n0 - 1)
        try: got = replay.parse_dump(d[1]) if d and d[0] == 'OK' else None
        except ValueError: got = None
        ok = bool(got) and replay.same_state(got, pre)
        bad = []
        for i in range(N):
            r = res.get(n0 + i); s = pre['slots'][i]; p = at[i]
            cur = 'NodeId{index1:%d,stamp:NodeStamp(%d)}' % (p + 1, s['stamp'])
            exp = 'get=Some(%d) index=%d get_mut=Some(%d) get_node_id=%s get_node_id_at=%s usize=%d nz=%d display=%d count=%d slice_len=%d iter_count=%d' % (
                p, p, p, cur, cur if s['stamp'] >= 0 else 'None', p + 1, p + 1, p + 1, vlen, vlen, vlen)
            if r is None or r[0] != 'OK' or r[1].strip() != exp: bad.append('slot at %d: %s (expected %s)' % (p + 1, r, exp))
        for j, p in enumerate([a + 1 for a in at] + [vlen + 1, vlen + 7]):
            r = res.get(n0 + N + j)
            exp = 'NodeId{index1:%d,stamp:NodeStamp(%d)}' % (p, pre['slots'][j]['stamp']) if (j < N and pre['slots'][j]['stamp'] >= 0) else 'None'
            if r is None or r[0] != 'OK' or r[1].strip() != exp: bad.append('get_node_id_at %d: %s (expected %s)' % (p, r, exp))
        detail[profile] = {'pre_ok': ok, 'bad': bad[:8]}
        detail.setdefault('script_tail', lines[n0:])
        if not ok:
            if status == 'not_reproduced': status = 'unreachable'
        elif bad: status = 'reproduced'
    return status, detail
