"""Symbolic arena pre-state, uniform slot views, the representation invariant INV
(assumed form with rank witnesses, proved form with unrolled walks)."""
import z3
from engine import S, Agg, En, VecV, Opq, UNINIT, zbool, bv, REPR

LINKS = ['parent', 'prev', 'next', 'first', 'last']
I16MIN = -32768


def BV64(v): return z3.BitVecVal(v, 64)
def BV16(v): return z3.BitVecVal(v, 16)
def BV8(v): return z3.BitVecVal(v, 8)


def b2d(c):
    """bool term -> isize discriminant S"""
    if isinstance(c, bool): return S(1 if c else 0, 'isize')
    return S(z3.If(c, BV64(1), BV64(0)), 'isize')


def mk_id(idx, stamp):
    return Agg('NodeId', (Agg('NonZero', (S(idx, 'usize'),)), Agg('NodeStamp', (S(stamp, 'i16'),))))


def opt_nodeid(some, idx, stamp):
    return En('Option', b2d(some), {0: (), 1: (mk_id(idx, stamp),)})


def opt_usize(some, v, nonzero=False):
    # `nonzero`: the field is declared Option<NonZeroUsize> in the current source (representation follows the code)
    inner = Agg('NonZero', (S(v, 'usize'),)) if nonzero else S(v, 'usize')
    return En('Option', b2d(some), {0: (), 1: (inner,)})


def usize_of(v):
    """S usize or NonZero wrapper -> z3 term"""
    if isinstance(v, Agg) and v.ty == 'NonZero': v = v.f[0]
    return zb(v)


def zb(s):
    if s.ty == 'bool': return zbool(s.v)
    return bv(s.v, s.ty)


def sel(arr, idx1, default=None):
    """arr[idx1-1] as ITE chain (idx1 is a 1-based BV64 term)."""
    n = len(arr)
    if n == 0: return default
    acc = arr[n - 1] if default is None else default
    lo = n - 2 if default is None else n - 1
    for j in range(lo, -1, -1):
        acc = z3.If(idx1 == j + 1, arr[j], acc)
    return acc


class SymArena:
    """N slots, everything symbolic: stamps (full i16), five links (present, 1-based idx, stamp),
    payload identity (8 bit), NextFree pointer, first/last free."""
    def __init__(self, N, pfx=''):
        self.N = N
        B = z3.Bool
        V64 = lambda n: z3.BitVec(pfx + n, 64)
        V16 = lambda n: z3.BitVec(pfx + n, 16)
        self.pfx = pfx
        self.stamp = [V16('stamp%d' % i) for i in range(N)]
        self.some = {L: [B('%s%s_some%d' % (pfx, L, i)) for i in range(N)] for L in LINKS}
        self.idx = {L: [V64('%s_idx%d' % (L, i)) for i in range(N)] for L in LINKS}
        self.lst = {L: [V16('%s_st%d' % (L, i)) for i in range(N)] for L in LINKS}
        self.data = [z3.BitVec('%sdata%d' % (pfx, i), 8) for i in range(N)]
        self.nf_some = [B('%snf_some%d' % (pfx, i)) for i in range(N)]
        self.nf_idx = [V64('nf_idx%d' % i) for i in range(N)]   # 0-based
        self.ff_some = B(pfx + 'ff_some'); self.ff_idx = V64('ff_idx')
        self.lf_some = B(pfx + 'lf_some'); self.lf_idx = V64('lf_idx')
        self.dep = [z3.BitVec('%sdep%d' % (pfx, i), 8) for i in range(N)]
        self.pos = [z3.BitVec('%spos%d' % (pfx, i), 8) for i in range(N)]
        self.frank = [z3.BitVec('%sfrank%d' % (pfx, i), 8) for i in range(N)]

    def live(self, i): return self.stamp[i] >= 0

    # ---- embedded mode: the N modelled slots sit at symbolic positions at[0] < at[1] < ... of a longer vector
    def embed(self, maxlen=1 << 17):
        """returns the constraints; afterwards value() / id_of() produce ids with the real (embedded) positions"""
        self.at = [z3.BitVec('%sat%d' % (self.pfx, i), 64) for i in range(self.N)]
        self.vlen = z3.BitVec(self.pfx + 'vlen', 64)
        cs = [z3.ULE(self.vlen, maxlen)]
        for i in range(self.N):
            cs.append(z3.ULT(self.at[i], self.vlen))
            if i: cs.append(z3.ULT(self.at[i - 1], self.at[i]))
        return cs

    def havoc_node(self, n):
        """an unconstrained node value (what a read outside the modelled component may see)"""
        h = SymArena(1, pfx='%shv%d_' % (self.pfx, n))
        # the shared (un-prefixed) names of SymArena would alias slot 0 of the modelled arena: rename them
        for L in LINKS:
            h.idx[L] = [z3.BitVec('%shv%d_%s_idx' % (self.pfx, n, L), 64)]; h.lst[L] = [z3.BitVec('%shv%d_%s_st' % (self.pfx, n, L), 16)]
        h.stamp = [z3.BitVec('%shv%d_stamp' % (self.pfx, n), 16)]; h.nf_idx = [z3.BitVec('%shv%d_nf' % (self.pfx, n), 64)]
        return h.value(spare=0).f[0].el[0]

    def to_real(self, idx1):
        """abstract 1-based slot term -> real 1-based position"""
        if not getattr(self, 'at', None): return idx1
        return sel([a + 1 for a in self.at], idx1)

    def to_abstract(self, real1):
        """real 1-based position -> abstract 1-based slot (0 when it is none of the modelled slots)"""
        if not getattr(self, 'at', None): return real1
        acc = BV64(0)
        for i in range(self.N - 1, -1, -1): acc = z3.If(real1 == self.at[i] + 1, BV64(i + 1), acc)
        return acc

    def value(self, spare=1, cap=None, embedded=False, free_inside=False):
        nodes = []
        emb = embedded and getattr(self, 'at', None)
        for i in range(self.N):
            links = [opt_nodeid(self.some[L][i], self.to_real(self.idx[L][i]) if emb else self.idx[L][i], self.lst[L][i]) for L in LINKS]
            dd = S(z3.If(self.live(i), BV64(0), BV64(1)), 'isize')
            data = En('NodeData', dd, {0: (Opq(self.data[i]),), 1: (opt_usize(self.nf_some[i], self.nf_idx[i], REPR['nf_nonzero']),)})
            nodes.append(Agg('Node', links + [Agg('NodeStamp', (S(self.stamp[i], 'i16'),)), data]))
        if emb and free_inside:
            # mutator harnesses: every slot outside the component is live, the whole free list lies inside it
            nodes = []
            for i in range(self.N):
                links = [opt_nodeid(self.some[L][i], self.to_real(self.idx[L][i]), self.lst[L][i]) for L in LINKS]
                dd = S(z3.If(self.live(i), BV64(0), BV64(1)), 'isize')
                data = En('NodeData', dd, {0: (Opq(self.data[i]),), 1: (opt_usize(self.nf_some[i], self.to_real(self.nf_idx[i] + 1) - 1, REPR['nf_nonzero']),)})
                nodes.append(Agg('Node', links + [Agg('NodeStamp', (S(self.stamp[i], 'i16'),)), data]))
            vec = VecV(S(self.vlen, 'usize'), S(z3.BitVec(self.pfx + 'vcap', 64), 'usize'), nodes, pos=list(self.at))
            return Agg('Arena', (vec, opt_usize(self.ff_some, self.to_real(self.ff_idx + 1) - 1, REPR['free_ends_nonzero']),
                                 opt_usize(self.lf_some, self.to_real(self.lf_idx + 1) - 1, REPR['free_ends_nonzero'])))
        if emb:
            # free-list ends are not modelled in embedded mode (read-only harnesses): unconstrained
            vec = VecV(S(self.vlen, 'usize'), S(z3.BitVec(self.pfx + 'vcap', 64), 'usize'), nodes, pos=list(self.at))
            return Agg('Arena', (vec, opt_usize(z3.Bool(self.pfx + 'e_ff_some'), z3.BitVec(self.pfx + 'e_ff', 64), REPR['free_ends_nonzero']),
                                 opt_usize(z3.Bool(self.pfx + 'e_lf_some'), z3.BitVec(self.pfx + 'e_lf', 64), REPR['free_ends_nonzero'])))
        vec = VecV(S(self.N, 'usize'), (self.N + spare) if cap is None else cap, nodes + [UNINIT] * spare)
        return Agg('Arena', (vec, opt_usize(self.ff_some, self.ff_idx, REPR['free_ends_nonzero']), opt_usize(self.lf_some, self.lf_idx, REPR['free_ends_nonzero'])))

    def sel(self, arr, idx1): return sel(arr, idx1)

    def id_of(self, x):
        """current id of 1-based slot term x"""
        return mk_id(self.to_real(x), sel(self.stamp, x))

    def inv(self, strict_removed=True):
        """INV as assumption (rank witnesses for acyclicity and free-list order)."""
        N = self.N
        cs = []
        dep, pos, fr = self.dep, self.pos, self.frank
        livearr = [self.live(i) for i in range(N)]
        for i in range(N):
            li = self.live(i)
            me = i + 1
            for L in LINKS:
                sm, ix, ls = self.some[L][i], self.idx[L][i], self.lst[L][i]
                cs.append(z3.Implies(z3.And(li, sm), z3.And(z3.UGE(ix, 1), z3.ULE(ix, N), ix != me,
                                                           sel(livearr, ix), ls == sel(self.stamp, ix))))
                if strict_removed:
                    cs.append(z3.Implies(z3.Not(li), z3.Not(sm)))
            nx = self.idx['next'][i]; pv = self.idx['prev'][i]; pa = self.idx['parent'][i]
            cs.append(z3.Implies(z3.And(li, self.some['next'][i]),
                                 z3.And(sel(self.some['prev'], nx), sel(self.idx['prev'], nx) == me,
                                        sel(self.some['parent'], nx) == self.some['parent'][i],
                                        z3.Implies(self.some['parent'][i], sel(self.idx['parent'], nx) == pa))))
            cs.append(z3.Implies(z3.And(li, self.some['prev'][i]),
                                 z3.And(sel(self.some['next'], pv), sel(self.idx['next'], pv) == me,
                                        z3.ULT(sel(pos, pv), pos[i]))))
            cs.append(z3.Implies(li, self.some['first'][i] == self.some['last'][i]))
            fc = self.idx['first'][i]; lc = self.idx['last'][i]
            cs.append(z3.Implies(z3.And(li, self.some['first'][i]),
                                 z3.And(sel(self.some['parent'], fc), sel(self.idx['parent'], fc) == me,
                                        z3.Not(sel(self.some['prev'], fc)))))
            cs.append(z3.Implies(z3.And(li, self.some['last'][i]),
                                 z3.And(sel(self.some['parent'], lc), sel(self.idx['parent'], lc) == me,
                                        z3.Not(sel(self.some['next'], lc)))))
            hasp = z3.And(li, self.some['parent'][i])
            cs.append(z3.Implies(hasp, z3.ULT(sel(dep, pa), dep[i])))
            cs.append(z3.Implies(z3.And(hasp, z3.Not(self.some['prev'][i])),
                                 z3.And(sel(self.some['first'], pa), sel(self.idx['first'], pa) == me)))
            cs.append(z3.Implies(z3.And(hasp, z3.Not(self.some['next'][i])),
                                 z3.And(sel(self.some['last'], pa), sel(self.idx['last'], pa) == me)))
        # free list: every removed slot whose stamp is still reusable is on the list exactly once, FIFO chain
        onl = [z3.And(z3.Not(self.live(i)), self.stamp[i] > I16MIN) for i in range(N)]
        k = sum([z3.If(onl[i], BV8(1), BV8(0)) for i in range(N)], BV8(0))
        cs.append(self.ff_some == self.lf_some)
        cs.append(self.ff_some == (k != 0))
        for i in range(N):
            o = onl[i]
            cs.append(z3.Implies(o, z3.ULT(fr[i], k)))
            cs.append(z3.Implies(z3.And(o, fr[i] == 0), self.ff_idx == i))
            cs.append(z3.Implies(z3.And(o, fr[i] + 1 == k), z3.And(z3.Not(self.nf_some[i]), self.lf_idx == i)))
            nxt = self.nf_idx[i]
            cs.append(z3.Implies(z3.And(o, fr[i] + 1 != k),
                                 z3.And(self.nf_some[i], z3.ULT(nxt, N), sel(onl, nxt + 1), sel(fr, nxt + 1) == fr[i] + 1)))
            for j in range(i + 1, N):
                cs.append(z3.Implies(z3.And(o, onl[j]), fr[i] != fr[j]))
            cs.append(z3.Implies(z3.And(z3.Not(self.live(i)), z3.Not(o)), z3.Not(self.nf_some[i])))
        return cs

    def model_dict(self, m):
        """concrete pre-state from a z3 model (JSON-able)"""
        def ev(e):
            v = m.eval(e, model_completion=True)
            if z3.is_bool(v): return z3.is_true(v)
            return v.as_long()
        def s16(v): return v - 65536 if v >= 32768 else v
        slots = []
        for i in range(self.N):
            st = s16(ev(self.stamp[i]))
            d = {'stamp': st, 'data': ev(self.data[i])}
            for L in LINKS:
                if ev(self.some[L][i]): d[L] = [ev(self.idx[L][i]), s16(ev(self.lst[L][i]))]
                else: d[L] = None
            d['next_free'] = ev(self.nf_idx[i]) if (st < 0 and ev(self.nf_some[i])) else None
            slots.append(d)
        out = {'slots': slots,
               'first_free': ev(self.ff_idx) if ev(self.ff_some) else None,
               'last_free': ev(self.lf_idx) if ev(self.lf_some) else None}
        if getattr(self, 'at', None):
            out['at'] = [ev(a) for a in self.at]; out['vlen'] = ev(self.vlen)
        return out


class View:
    """Uniform per-slot z3 view of an arena value (symbolic or concrete)."""
    def __init__(self, arena_val, unmap=None):
        """unmap: the SymArena whose embedding (real positions) the value uses; the view is then over slot numbers 1..N"""
        vec = arena_val.f[0]
        if unmap is not None and vec.pos is not None:
            n = len(vec.el)
            ua1 = unmap.to_abstract                                   # 1-based
            ua0 = lambda t: unmap.to_abstract(t + 1) - 1              # 0-based
        else:
            assert vec.len.conc(), 'symbolic vec len'
            n = vec.len.v
            ua1 = ua0 = (lambda t: t)
        self.N = n
        self.stamp = []; self.some = {L: [] for L in LINKS}; self.idx = {L: [] for L in LINKS}; self.lst = {L: [] for L in LINKS}
        self.is_data = []; self.data = []; self.nf_some = []; self.nf_idx = []
        for j in range(n):
            nd = vec.el[j]
            for k, L in enumerate(LINKS):
                o = nd.f[k]
                self.some[L].append(zb(S(o.d.v, 'isize')) == 1)
                if 1 in o.pay:
                    nid = o.pay[1][0]
                    self.idx[L].append(ua1(zb(nid.f[0].f[0]))); self.lst[L].append(zb(nid.f[1].f[0]))
                else:
                    self.idx[L].append(BV64(0)); self.lst[L].append(BV16(0))
            self.stamp.append(zb(nd.f[5].f[0]))
            d = nd.f[6]
            self.is_data.append(zb(S(d.d.v, 'isize')) == 0)
            if 0 in d.pay and isinstance(d.pay[0][0], Opq): self.data.append(d.pay[0][0].e)
            else: self.data.append(BV8(0))
            if 1 in d.pay:
                nf = d.pay[1][0]
                self.nf_some.append(zb(S(nf.d.v, 'isize')) == 1)
                self.nf_idx.append(ua0(usize_of(nf.pay[1][0])) if 1 in nf.pay else BV64(0))
            else:
                self.nf_some.append(z3.BoolVal(False)); self.nf_idx.append(BV64(0))
        ff, lf = arena_val.f[1], arena_val.f[2]
        self.ff_some = zb(S(ff.d.v, 'isize')) == 1; self.ff_idx = ua0(usize_of(ff.pay[1][0])) if 1 in ff.pay else BV64(0)
        self.lf_some = zb(S(lf.d.v, 'isize')) == 1; self.lf_idx = ua0(usize_of(lf.pay[1][0])) if 1 in lf.pay else BV64(0)

    @staticmethod
    def from_dict(d):
        """concrete view from the JSON form (model_dict / parsed native dump)"""
        v = View.__new__(View)
        slots = d['slots']; n = len(slots)
        v.N = n
        v.stamp = [BV16(s['stamp']) for s in slots]
        v.some = {L: [z3.BoolVal(s[L] is not None) for s in slots] for L in LINKS}
        v.idx = {L: [BV64(s[L][0] if s[L] else 0) for s in slots] for L in LINKS}
        v.lst = {L: [BV16(s[L][1] if s[L] else 0) for s in slots] for L in LINKS}
        v.is_data = [z3.BoolVal(s.get('is_data', s['stamp'] >= 0)) for s in slots]
        v.data = [BV8(s['data'] if s.get('data') is not None else 0) for s in slots]
        v.nf_some = [z3.BoolVal(s.get('next_free') is not None) for s in slots]
        v.nf_idx = [BV64(s['next_free'] if s.get('next_free') is not None else 0) for s in slots]
        v.ff_some = z3.BoolVal(d['first_free'] is not None); v.ff_idx = BV64(d['first_free'] or 0)
        v.lf_some = z3.BoolVal(d['last_free'] is not None); v.lf_idx = BV64(d['last_free'] or 0)
        return v

    def live(self, i): return self.stamp[i] >= 0
    def sel(self, arr, idx1): return sel(arr, idx1)

    def link(self, L, x):
        """(some, idx) of link L of 1-based slot term x"""
        return sel(self.some[L], x), sel(self.idx[L], x)

    def to_dict(self, m):
        def ev(e):
            v = m.eval(e, model_completion=True) if m is not None else z3.simplify(e)
            if z3.is_bool(v): return z3.is_true(v)
            return v.as_long()
        def s16(v): return v - 65536 if v >= 32768 else v
        slots = []
        for i in range(self.N):
            st = s16(ev(self.stamp[i]))
            isd = ev(self.is_data[i])
            d = {'stamp': st, 'is_data': isd, 'data': ev(self.data[i]) if isd else None}
            for L in LINKS:
                d[L] = [ev(self.idx[L][i]), s16(ev(self.lst[L][i]))] if ev(self.some[L][i]) else None
            d['next_free'] = ev(self.nf_idx[i]) if (not isd and ev(self.nf_some[i])) else None
            slots.append(d)
        return {'slots': slots, 'first_free': ev(self.ff_idx) if ev(self.ff_some) else None,
                'last_free': ev(self.lf_idx) if ev(self.lf_some) else None}


# ---------------------------------------------------------------------------------------------
# INV in proved form: list of (name, formula) over a View; no witnesses, unrolled walks.

def inv_links(V):
    """clauses 1-4 and 6 (C01 / C12 structural)"""
    N = V.N; out = []
    livearr = [V.live(i) for i in range(N)]
    for i in range(N):
        li = V.live(i); me = i + 1
        for L in LINKS:
            sm, ix, ls = V.some[L][i], V.idx[L][i], V.lst[L][i]
            out.append(('C01.link_target[%d.%s]' % (me, L),
                        z3.Implies(z3.And(li, sm), z3.And(z3.UGE(ix, 1), z3.ULE(ix, N), ix != me,
                                                          sel(livearr, ix, z3.BoolVal(False)),
                                                          ls == sel(V.stamp, ix, BV16(0))))))
            out.append(('C12.removed_nolinks[%d.%s]' % (me, L), z3.Implies(z3.Not(li), z3.Not(sm))))
            # C12's own statement: no link of a live node leads to a removed node
            out.append(('C12.no_live_link_to_removed[%d.%s]' % (me, L),
                        z3.Implies(z3.And(li, sm), z3.And(z3.UGE(ix, 1), z3.ULE(ix, N), sel(livearr, ix, z3.BoolVal(False))))))
        out.append(('C01.data_tag[%d]' % me, V.is_data[i] == li))
        nx = V.idx['next'][i]; pv = V.idx['prev'][i]; pa = V.idx['parent'][i]
        out.append(('C01.next_prev[%d]' % me,
                    z3.Implies(z3.And(li, V.some['next'][i]),
                               z3.And(sel(V.some['prev'], nx), sel(V.idx['prev'], nx) == me,
                                      sel(V.some['parent'], nx) == V.some['parent'][i],
                                      z3.Implies(V.some['parent'][i], sel(V.idx['parent'], nx) == pa)))))
        out.append(('C01.prev_next[%d]' % me,
                    z3.Implies(z3.And(li, V.some['prev'][i]),
                               z3.And(sel(V.some['next'], pv), sel(V.idx['next'], pv) == me))))
        out.append(('C01.first_iff_last[%d]' % me, z3.Implies(li, V.some['first'][i] == V.some['last'][i])))
        fc = V.idx['first'][i]; lc = V.idx['last'][i]
        out.append(('C01.first_child[%d]' % me,
                    z3.Implies(z3.And(li, V.some['first'][i]),
                               z3.And(sel(V.some['parent'], fc), sel(V.idx['parent'], fc) == me,
                                      z3.Not(sel(V.some['prev'], fc))))))
        out.append(('C01.last_child[%d]' % me,
                    z3.Implies(z3.And(li, V.some['last'][i]),
                               z3.And(sel(V.some['parent'], lc), sel(V.idx['parent'], lc) == me,
                                      z3.Not(sel(V.some['next'], lc))))))
        hasp = z3.And(li, V.some['parent'][i])
        out.append(('C01.child_is_first[%d]' % me,
                    z3.Implies(z3.And(hasp, z3.Not(V.some['prev'][i])),
                               z3.And(sel(V.some['first'], pa), sel(V.idx['first'], pa) == me))))
        out.append(('C01.child_is_last[%d]' % me,
                    z3.Implies(z3.And(hasp, z3.Not(V.some['next'][i])),
                               z3.And(sel(V.some['last'], pa), sel(V.idx['last'], pa) == me))))
    return out


def inv_acyclic(V):
    """clause 5: following parent / previous / next links N-1 times from any live node ends."""
    N = V.N; out = []
    for i in range(N):
        li = V.live(i)
        for L in ('parent', 'prev', 'next'):
            some, cur = V.some[L][i], V.idx[L][i]
            for _ in range(N - 1):
                some, cur = z3.And(some, sel(V.some[L], cur, z3.BoolVal(False))), sel(V.idx[L], cur, BV64(0))
            out.append(('C02.acyclic_%s[%d]' % (L, i + 1), z3.Implies(li, z3.Not(some))))
    return out


def inv_freelist(V):
    """clause 7: walking NextFree from first_free visits exactly the removed+reusable slots once each,
    ends at last_free."""
    N = V.N; out = []
    onl = [z3.And(z3.Not(V.live(i)), V.stamp[i] > I16MIN) for i in range(N)]
    cnt = sum([z3.If(o, BV8(1), BV8(0)) for o in onl], BV8(0))
    out.append(('C07.free_ends', V.ff_some == V.lf_some))
    out.append(('C07.free_nonempty', V.ff_some == (cnt != 0)))
    some, cur = V.ff_some, V.ff_idx  # 0-based
    visited = []
    for k in range(N):
        visited.append((some, cur))
        inr = z3.ULT(cur, N)
        out.append(('C07.free_walk_in_range[%d]' % k, z3.Implies(some, inr)))
        out.append(('C07.free_walk_is_free[%d]' % k, z3.Implies(some, sel(onl, cur + 1, z3.BoolVal(False)))))
        out.append(('C07.free_walk_len[%d]' % k, some == z3.ULT(BV8(k), cnt)))
        nsome = sel(V.nf_some, cur + 1, z3.BoolVal(False)); nidx = sel(V.nf_idx, cur + 1, BV64(0))
        # the last visited element is last_free and has no successor
        out.append(('C07.free_tail[%d]' % k, z3.Implies(z3.And(some, BV8(k + 1) == cnt),
                                                        z3.And(z3.Not(nsome), V.lf_idx == cur))))
        some, cur = z3.And(some, nsome), nidx
    out.append(('C07.free_walk_ends', z3.Not(some)))
    for i in range(N):
        out.append(('C07.free_listed[%d]' % (i + 1),
                    z3.Implies(onl[i], z3.Or(*[z3.And(s, c == i) for (s, c) in visited]) if visited else z3.BoolVal(False))))
        out.append(('C07.retired_no_next[%d]' % (i + 1),
                    z3.Implies(z3.And(z3.Not(V.live(i)), z3.Not(onl[i])), z3.Not(V.nf_some[i]))))
    return out


def inv_all(V):
    return inv_links(V) + inv_acyclic(V) + inv_freelist(V)


# ---------------------------------------------------------------------------------------------
# abstraction helpers over a View

def is_ancestor_or_self(V, a, x):
    """a is x or an ancestor of x (1-based terms), by an unrolled parent walk of N-1 steps."""
    res = (a == x)
    some, cur = V.link('parent', x)
    for _ in range(max(V.N - 1, 0)):
        res = z3.Or(res, z3.And(some, cur == a))
        s2, c2 = V.link('parent', cur)
        some, cur = z3.And(some, s2), c2
    return res


def opt_eq(s1, i1, s2, i2):
    return z3.And(s1 == s2, z3.Implies(s1, i1 == i2))
