import sys, json
from dev_try import load
import multistep
N = int(sys.argv[1]); free_op = sys.argv[2]; finals = sys.argv[3].split(',') if len(sys.argv) > 3 and sys.argv[3] else []
prog = load()
job = {'kind': 'custom', 'name': 'history', 'N': N, 'cfg': 'dev', 'props': sys.argv[4].split(',') if len(sys.argv) > 4 else ['C01', 'C02'], 'free_op': free_op, 'final_ops': finals}
r = multistep.run_history_job(prog, job)
v = r.pop('violations'); r.pop('samples'); r.pop('smt2')
print(json.dumps(r, default=str))
names = {}
for x in v:
    for c in x['checks']:
        k = c.split('[')[0]; names[k] = names.get(k, 0) + 1
print(names)
if v: print(json.dumps(v[0], default=str)[:1200])
