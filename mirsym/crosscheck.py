"""Re-decide exported assertion queries with a second solver (cvc5). Any disagreement or error is inconclusive."""
import subprocess, tempfile, os
from concurrent.futures import ThreadPoolExecutor


def _one(q):
    with tempfile.NamedTemporaryFile('w', suffix='.smt2', delete=False, dir=os.environ.get('VERIF_SCRATCH') or '/var/tmp') as f:
        f.write(q['smt2']); path = f.name
    try:
        p = subprocess.run(['cvc5', '--lang', 'smt2', '--tlimit', '60000', path], stdout=subprocess.PIPE, stderr=subprocess.PIPE, text=True, timeout=90)
        out = (p.stdout + p.stderr).strip()
    except subprocess.TimeoutExpired:
        out = 'timeout'
    finally:
        os.unlink(path)
    first = out.split('\n')[0].strip() if out else ''
    if '(error' in out or first not in ('sat', 'unsat'):
        if first in ('timeout', 'unknown') or 'timeout' in out or 'interrupted' in out.lower(): return ('skip', out[:200])
        return ('error', out[:300])
    return ('agree' if first == q['expected'] else 'disagree', 'z3=%s cvc5=%s' % (q['expected'], first))


def run(queries, limit=40, nproc=8):
    qs = queries[:limit]
    agree = 0; bad = []; total = 0
    with ThreadPoolExecutor(max_workers=nproc) as ex:
        for (st, msg) in ex.map(_one, qs):
            if st == 'skip': continue
            total += 1
            if st == 'agree': agree += 1
            else: bad.append('%s %s' % (st, msg))
    return total, agree, bad
