import sys, json
from dev_try import load
import multistep
fn, N = sys.argv[1], int(sys.argv[2])
prog = load()
job = {'kind': 'custom', 'name': fn, 'N': N, 'cfg': 'dev', 'props': ['C06', 'C07', 'C13', 'C08'], 'how': sys.argv[3] if len(sys.argv) > 3 else 'remove', 'first': sys.argv[3] if len(sys.argv) > 3 else None}
r = getattr(multistep, fn)(prog, job)
v = r.pop('violations'); r.pop('samples'); r.pop('smt2')
print(json.dumps(r, default=str))
names = {}
for x in v:
    for c in x['checks']:
        k = c.split('[')[0]; names[k] = names.get(k, 0) + 1
print(names)
if v: print(json.dumps(v[0], default=str)[:1500])
