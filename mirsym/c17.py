"""C17: features are additive. (1) MIR bodies of every function, compared across feature configurations modulo the
printing of module paths; (2) path-pair differential: the same entry point is executed on the MIR of two configurations
from the same symbolic INV pre-state; for every pair of compatible paths outcome, result and post-state must be equal."""
import re, time, difflib
import z3
from engine import *
from symarena import *
import harness, iters, specs
from iters import new_result

T_, F_ = z3.BoolVal(True), z3.BoolVal(False)
_MODPATH = re.compile(r'\b(?:[a-z_][a-z_0-9]*::)+(?=[A-Za-z_])')


def norm(s): return _MODPATH.sub('', s)


def fn_bodies(text):
    out = {}
    for m in re.finditer(r'^fn (.*?) \{\n(?:.|\n)*?^\}', text, re.M):
        out.setdefault(norm(m.group(1).split('(')[0]), []).append(norm(m.group(0)))
    return out


def compare_texts(base, other):
    """returns (identical names, differing names, missing names, extra names)"""
    a, b = fn_bodies(base), fn_bodies(other)
    same = [n for n in a if n in b and a[n] == b[n]]
    diff = [n for n in a if n in b and a[n] != b[n]]
    missing = [n for n in a if n not in b]
    extra = [n for n in b if n not in a]
    return same, diff, missing, extra


# ---------------------------------------------------------------------------------------------
def observe_mutator(prog, op, N):
    ctx = harness.Ctx(prog, op, N)
    outs = ctx.explore()
    obs = []
    for o in outs:
        c = harness.case_from_outcome(ctx, o)
        obs.append({'pc': list(o.state.pc), 'kind': c.kind, 'case': c, 'steps': o.state.steps})
    return ctx, obs


def equal_cases(a, b, data):
    """formula: the two outcomes are observably equal"""
    if a.kind != b.kind: return F_
    fs = []
    if a.kind == 'bound': return T_
    if (a.is_err is None) != (b.is_err is None): return F_
    if a.is_err is not None:
        fs.append(a.is_err == b.is_err)
        if a.err_disc is not None and b.err_disc is not None: fs.append(z3.Implies(a.is_err, a.err_disc == b.err_disc))
        elif (a.err_disc is None) != (b.err_disc is None):
            fs.append(z3.Not(a.is_err) if a.err_disc is None else z3.Not(b.is_err))
    if (a.ridx is None) != (b.ridx is None): return F_
    if a.ridx is not None: fs += [a.ridx == b.ridx, a.rst == b.rst]
    if a.post is not None and b.post is not None:
        fs += [f for (_, f) in specs.arena_equal(a.post, b.post, 'eq')]
    for d in data:
        ca = sum([z3.If(z3.And(zbool(c), e == d), 1, 0) for (c, e) in a.drops], z3.IntVal(0))
        cb = sum([z3.If(z3.And(zbool(c), e == d), 1, 0) for (c, e) in b.drops], z3.IntVal(0))
        fs.append(ca == cb)
    return z3.And(*fs) if fs else T_


def run_diff_mutator(progs, job):
    """progs: dict (cfg, feat) -> Program; job: op, N, base=(cfg, feat), other=(cfg, feat)"""
    t0 = time.time()
    op, N = job['op'], job['N']
    res = new_result(job)
    pa = progs[tuple(job['base'])]; pb = progs[tuple(job['other'])]
    ctxa, oa = observe_mutator(pa, op, N)
    ctxb, ob = observe_mutator(pb, op, N)
    sv = ctxa.eng.solver
    if sv.check() != z3.sat:
        res['vacuous'] = True; return res
    data = list(ctxa.A.data) + [ctxa.newdata]
    res['paths'] = len(oa) + len(ob); res['steps'] = sum(x['steps'] for x in oa) + sum(x['steps'] for x in ob)
    for x in oa:
        for y in ob:
            pc = x['pc'] + y['pc']
            tq = time.time(); r = ctxa.eng.check(list(pc)); res['solver_time'] += time.time() - tq
            if r != z3.sat: continue
            res['obligations'] += 1
            eq = equal_cases(x['case'], y['case'], data)
            tq = time.time(); r = ctxa.eng.check(pc + [z3.Not(eq)]); res['solver_time'] += time.time() - tq
            res['assert_queries'] += 1
            if r == z3.unsat:
                res['discharged'] += 1; res['nontrivial'] += 1 if x['kind'] in ('ok', 'result') else 0
                if res.get('export_smt2', 0) > len(res['smt2']): res['smt2'].append(harness.export_smt2(sv, pc + [z3.Not(eq)], 'unsat'))
            elif r == z3.unknown: res['unknown'] = 'assertion query unknown'
            else:
                m = sv.model()
                res['violations'].append({'kind': 'custom', 'module': 'c17', 'confirm': 'confirm', 'checks': ['C17.same_outcome[%s]' % op], 'op': op, 'N': N,
                                          'cfg': job['other'][0], 'feat': [job['base'][1], job['other'][1]], 'outcome': '%s vs %s' % (x['kind'], y['kind']),
                                          'args': ctxa.args_dict(m), 'pre': ctxa.A.model_dict(m), 'role': harness.role_pattern(ctxa, m)})
    if sv.check() == z3.sat and len(res['samples']) < 1:
        m = sv.model()
        res['samples'].append({'differential': op, 'N': N, 'configs': [job['base'], job['other']], 'args': ctxa.args_dict(m), 'pre': ctxa.A.model_dict(m)})
    res['feas_queries'] = ctxa.eng.nq + ctxb.eng.nq; res['solver_time'] += ctxa.eng.tq + ctxb.eng.tq
    res['wall'] = time.time() - t0
    return res


def observe_iter(prog, name, N):
    ic = iters.ICtx(prog, N)
    eng = ic.eng
    meth = iters.method_lookup(prog, iters.ITER_TYPE[name])
    starts = [(s, c, []) for (s, c, err) in iters.make_iter(ic, name) if not err]
    done = iters.drive(eng, starts, meth, 2 * N + 2)
    obs = []
    for (s, itcell, seq, fin) in done:
        if name in iters.EDGE: terms = [iters.edge_terms(e) for e in seq]
        else: terms = [iters.id_terms(v) for v in seq]
        obs.append({'pc': list(s.pc), 'fin': fin, 'seq': terms, 'steps': s.steps})
    return ic, obs


def run_diff_iter(progs, job):
    t0 = time.time()
    name, N = job['name'], job['N']
    res = new_result(job)
    pa = progs[tuple(job['base'])]; pb = progs[tuple(job['other'])]
    ica, oa = observe_iter(pa, name, N)
    icb, ob = observe_iter(pb, name, N)
    sv = ica.eng.solver
    res['paths'] = len(oa) + len(ob); res['steps'] = sum(x['steps'] for x in oa) + sum(x['steps'] for x in ob)
    for x in oa:
        for y in ob:
            pc = x['pc'] + y['pc']
            if ica.eng.check(list(pc)) != z3.sat: continue
            res['obligations'] += 1
            if x['fin'] != y['fin'] or len(x['seq']) != len(y['seq']): eq = F_
            else:
                fs = []
                for ea, eb in zip(x['seq'], y['seq']):
                    fs += [p == q for p, q in zip(ea, eb)]
                eq = z3.And(*fs) if fs else T_
            r = ica.eng.check(pc + [z3.Not(eq)]); res['assert_queries'] += 1
            if r == z3.unsat: res['discharged'] += 1; res['nontrivial'] += 1 if len(x['seq']) >= 2 else 0
            elif r == z3.unknown: res['unknown'] = 'assertion query unknown'
            else:
                m = sv.model()
                res['violations'].append({'kind': 'custom', 'module': 'c17', 'confirm': 'confirm', 'checks': ['C17.same_sequence[%s]' % name], 'op': name, 'N': N,
                                          'cfg': job['other'][0], 'feat': [job['base'][1], job['other'][1]], 'outcome': 'len %d vs %d' % (len(x['seq']), len(y['seq'])),
                                          'args': {'x': m.eval(ica.x, model_completion=True).as_long()}, 'pre': ica.A.model_dict(m), 'role': 'iter'})
    res['feas_queries'] = ica.eng.nq + icb.eng.nq; res['solver_time'] += ica.eng.tq + icb.eng.tq
    res['wall'] = time.time() - t0
    return res


def run_diff_pretty(progs, job):
    """the pretty printer on two feature configurations from the same symbolic forest / start node / renderings / alternate flag:
    compatible paths must emit the same text and the same result"""
    import pretty
    t0 = time.time()
    res = new_result(job)
    ea = pretty.explore_pretty(progs[tuple(job['base'])], job)
    eb = pretty.explore_pretty(progs[tuple(job['other'])], job)
    if ea is None or eb is None:
        res['vacuous'] = True; return res
    eng, A, x, alt, rsel, RS, oa = ea
    ob = eb[6]
    res['paths'] = len(oa) + len(ob); res['steps'] = sum(o.state.steps for o in oa) + sum(o.state.steps for o in ob)
    def obs(o):
        return (o.kind, ''.join(getattr(o.state, 'out', ())) if o.kind == 'return' else '', getattr(o.state, 'modes', ()))
    for pa in oa:
        for pb in ob:
            if obs(pa) == obs(pb): continue                  # equal observations: nothing to decide
            pc = list(pa.state.pc) + list(pb.state.pc)
            res['obligations'] += 1; res['assert_queries'] += 1
            r = eng.check(pc)
            if r == z3.unsat: res['discharged'] += 1; continue     # the two paths are never taken by the same input
            if r == z3.unknown: res['unknown'] = 'query unknown'; continue
            m = eng.solver.model()
            res['violations'].append({'kind': 'custom', 'module': 'c17', 'confirm': 'confirm_pretty', 'checks': ['C17.same_pretty_text[%s]' % job['trait']], 'op': 'pretty_' + job['trait'].lower(),
                                      'N': job['N'], 'cfg': job['other'][0], 'feat': [job['base'][1], job['other'][1]], 'pre': A.model_dict(m), 'role': 'pretty',
                                      'got': [obs(pa)[1], obs(pb)[1]],
                                      'args': {'x': m.eval(x, model_completion=True).as_long(), 'alt': z3.is_true(m.eval(alt, model_completion=True)), 'trait': job['trait'],
                                               'texts': [RS[m.eval(r_, model_completion=True).as_long()][0] for r_ in rsel],
                                               'chunks': [RS[m.eval(r_, model_completion=True).as_long()][1] for r_ in rsel]}})
            if len(res['violations']) > 4: break
    res['nontrivial'] = len(oa)
    res['samples'].append({'differential': 'pretty_' + job['trait'], 'N': job['N'], 'configs': [job['base'], job['other']], 'paths': [len(oa), len(ob)]})
    res['feas_queries'] = eng.nq + eb[0].nq; res['solver_time'] += eng.tq + eb[0].tq
    res['wall'] = time.time() - t0
    return res


def confirm_pretty(prop, v):
    """native: print the model's tree with both feature builds of the replayer and compare the text"""
    import replay, os, subprocess, pretty, ast
    pre = v['pre']; a = v['args']
    for i, s in enumerate(pre['slots']):
        if s['stamp'] >= 0: s['data'] = i
    mode = ('display' if a['trait'] == 'Display' else 'debug') + ('_alt' if a['alt'] else '')
    outs = {}; detail = {}
    for feat in v.get('feat', ['std', 'nostd']):
        env = dict(os.environ); env['CARGO_NET_OFFLINE'] = 'true'
        td = os.path.join(replay.RDIR, 'target-' + feat); env['CARGO_TARGET_DIR'] = td
        p = subprocess.run(['cargo', 'build', '--offline', '--quiet', '--no-default-features', '--features', 'ix-' + feat], cwd=replay.RDIR, env=env, stdout=subprocess.PIPE, stderr=subprocess.PIPE, text=True)
        if p.returncode != 0:
            detail[feat] = {'build_failed': p.stderr[-400:]}; continue
        replay._built['feat-' + feat] = os.path.join(td, 'debug', 'replayer')
        lines = replay.construct_script(pre)
        n0 = len(lines)
        for n in range(1, len(pre['slots']) + 1):
            lines.append('render %d %s' % (n - 1, '|~|'.join(pretty.enc_piece(c) for c in a['chunks'][n - 1])))
        lines.append('pretty %s s%d' % (mode, a['x']))
        res = replay.run_script(lines, 'feat-' + feat)
        d = res.get(n0 - 1)
        try: ok = replay.same_state(replay.parse_dump(d[1]), pre)
        except Exception: ok = False
        outs[feat] = (ok, res.get(len(lines) - 1))
        detail[feat] = {'pre_ok': ok, 'printed': str(res.get(len(lines) - 1))[:300]}
    if len(outs) < 2: return 'not_reproduced', detail
    vals = list(outs.values())
    if not all(o[0] for o in vals): return 'unreachable', detail
    return ('reproduced' if any(o[1] != vals[0][1] for o in vals[1:]) else 'not_reproduced'), detail


def run_diff_display(progs, job):
    """Display for NodeId on two feature configurations, for a formatter with symbolic width / precision presence: the emitted
    text must be the same (write!(f, "{}", x) ignores the caller's width and precision, Formatter::pad honours them)"""
    import fmtmodel
    from multistep import call_all
    t0 = time.time()
    res = new_result(job)
    fmtmodel.install()
    obs = []
    qi = z3.BitVec('qi', 64); qs = z3.BitVec('qs', 16)
    hw = z3.Bool('fmt_has_width'); hp = z3.Bool('fmt_has_precision')
    engs = []
    for key in (tuple(job['base']), tuple(job['other'])):
        prog = progs[key]
        eng = Engine(prog, max_steps=20000); engs.append(eng)
        eng.solver.add(qi != 0)
        st = State()
        idcell = st.new_cell(mk_id(qi, qs)); fmtcell = st.new_cell(Agg('Formatter', (S(False, 'bool'), S(hw, 'bool'), S(hp, 'bool'))))
        dfn = [f for (t, f) in prog.methods.get(('NodeId', 'fmt'), []) if t == 'Display']
        if not dfn: raise Unsupported('no Display for NodeId')
        outs = []
        for o in call_all(eng, st, dfn[0], [Ref(idcell, ()), Ref(fmtcell, ())]):
            res['paths'] += 1; res['steps'] += o.state.steps
            outs.append((list(o.state.pc), o.kind, getattr(o.state, 'out', ())))
        obs.append(outs)
    eng = engs[0]
    tpd = fmtmodel.templates(progs[tuple(job['base'])])['display']
    def canon(out):
        """(kind, value term, honours_width_precision)"""
        if len(out) != 1: return None
        e_ = out[0]
        if e_[0] == 'arg' and e_[1] == tpd and e_[2] == 'display' and isinstance(e_[3], S): return ('num', zb(e_[3]), False)
        if e_[0] == 'pad' and isinstance(e_[1], fmtmodel.SymDisplay): return ('num', zb(e_[1].val), True)
        return None
    for (pca, ka, oa) in obs[0]:
        for (pcb, kb, ob) in obs[1]:
            pc = pca + pcb
            if eng.check(pc) != z3.sat: continue
            res['obligations'] += 1; res['assert_queries'] += 1
            ca, cb = canon(oa), canon(ob)
            if ka != kb or ca is None or cb is None:
                eq = z3.BoolVal(ka == kb and oa == ob)
            else:
                same_mode = z3.BoolVal(ca[2] == cb[2])
                eq = z3.And(ca[1] == cb[1], z3.Or(same_mode, z3.And(z3.Not(hw), z3.Not(hp))))
            r = eng.check(pc + [z3.Not(eq)])
            if r == z3.unsat: res['discharged'] += 1; res['nontrivial'] += 1
            elif r == z3.unknown: res['unknown'] = 'query unknown'
            else:
                m = eng.solver.model()
                res['violations'].append({'kind': 'custom', 'module': 'c17', 'confirm': 'confirm_display', 'checks': ['C17.same_display_of_id'], 'op': 'display', 'N': 0,
                                          'cfg': job['other'][0], 'feat': [job['base'][1], job['other'][1]], 'pre': {'slots': [], 'first_free': None, 'last_free': None}, 'role': 'display',
                                          'args': {'has_width': z3.is_true(m.eval(hw, model_completion=True)), 'has_precision': z3.is_true(m.eval(hp, model_completion=True))}})
    res['samples'].append({'differential': 'Display for NodeId', 'configs': [job['base'], job['other']], 'formatter': 'symbolic presence of width and precision'})
    res['feas_queries'] = sum(e_.nq for e_ in engs); res['wall'] = time.time() - t0
    return res


def confirm_display(prop, v):
    import replay, os, subprocess
    outs = {}; detail = {}
    for feat in v.get('feat', ['std', 'nostd']):
        env = dict(os.environ); env['CARGO_NET_OFFLINE'] = 'true'
        td = os.path.join(replay.RDIR, 'target-' + feat); env['CARGO_TARGET_DIR'] = td
        p = subprocess.run(['cargo', 'build', '--offline', '--quiet', '--no-default-features', '--features', 'ix-' + feat], cwd=replay.RDIR, env=env, stdout=subprocess.PIPE, stderr=subprocess.PIPE, text=True)
        if p.returncode != 0:
            detail[feat] = {'build_failed': p.stderr[-400:]}; continue
        replay._built['feat-' + feat] = os.path.join(td, 'debug', 'replayer')
        lines = ['new a 1'] + ['new n%d %d' % (k, k) for k in range(12)] + ['fmtid a', 'fmtid n10']
        res = replay.run_script(lines, 'feat-' + feat)
        outs[feat] = (res.get(len(lines) - 2), res.get(len(lines) - 1))
        detail[feat] = {'printed': str(outs[feat])[:300]}
    if len(outs) < 2: return 'not_reproduced', detail
    vals = list(outs.values())
    return ('reproduced' if any(o != vals[0] for o in vals[1:]) else 'not_reproduced'), detail


def run_par_iter_job(progs, job):
    """C17, last clause: par_iter() visits exactly the nodes of iter().  Arena::par_iter (all-features MIR) and Arena::iter are
    executed on the same symbolic arena; the slice handed to rayon must be the slice iter() walks: same vector, from element 0,
    for its whole length.  That rayon's slice iterator visits every element of the slice it is given exactly once is rayon's
    contract and is assumed, not encoded."""
    from multistep import call_all
    t0 = time.time()
    res = new_result(job)
    N = job['N']
    prog = progs[tuple(job['other'])]
    eng = Engine(prog, max_steps=20000)
    A = SymArena(N)
    for c_ in A.inv(): eng.solver.add(c_)
    st = State(); acell = st.new_cell(A.value())
    def bi_par(eng_, st_, args, d, r, callee=''):
        rf = args[0]
        if isinstance(rf, E_.SubRef): return ('value', Agg('ParIter', (Ref(rf.cell, rf.path), rf.off, E_.binop_static(eng_, 'Add', rf.off, rf.len))))
        v = E_.vec_of(eng_, st_, rf)
        return ('value', Agg('ParIter', (rf, S(0, 'usize'), v.len)))
    import engine as E_
    E_.binop_static = lambda e, op, a, b: e.binop(op, a, b)
    for key in (('IntoParallelRefIterator', 'par_iter'), ('Vec', 'par_iter'), ('[Node<T>]', 'par_iter'), ('IntoParallelIterator', 'into_par_iter')):
        E_.BUILTIN_METHODS[key] = bi_par
    fpar = [f for (t, f) in prog.methods.get(('Arena', 'par_iter'), [])]
    fit = [f for (t, f) in prog.methods.get(('Arena', 'iter'), [])]
    if not fpar or not fit: raise Unsupported('Arena::par_iter / Arena::iter not in the all-features MIR')
    outs_p = call_all(eng, st.copy(), fpar[0], [Ref(acell, ())])
    outs_i = call_all(eng, st.copy(), fit[0], [Ref(acell, ())])
    def viol(m):
        return {'kind': 'custom', 'module': 'c17', 'confirm': 'confirm_par_iter', 'checks': ['C17.par_iter_is_handed_the_slice_of_iter'], 'op': 'par_iter', 'N': N,
                'cfg': job['other'][0], 'pre': A.model_dict(m), 'role': 'par_iter', 'args': {}}
    for op_ in outs_p:
        for oi in outs_i:
            res['paths'] += 1
            pc = list(op_.state.pc) + list(oi.state.pc)
            if eng.check(pc) != z3.sat: continue
            res['obligations'] += 1; res['assert_queries'] += 1
            good = F_
            if op_.kind == 'return' and oi.kind == 'return' and isinstance(op_.value, Agg) and op_.value.ty == 'ParIter' and isinstance(oi.value, Agg) and oi.value.ty == 'SliceIter':
                pr, plo, phi = op_.value.f; ir, ilo, ihi = oi.value.f
                same_vec = (pr.cell == ir.cell and tuple(pr.path) == tuple(ir.path) and pr.cell == acell)
                if same_vec:
                    good = z3.And(zb(plo) == zb(ilo), zb(phi) == zb(ihi), zb(plo) == 0, zb(phi) == N)
                elif all(b_.conc() for b_ in (plo, phi, ilo, ihi)):
                    # a sub-slice taken by range indexing is modelled as a copy: the same node values, in order
                    pv = E_.vec_of(eng, op_.state, pr).el[plo.v:phi.v]; iv = E_.vec_of(eng, oi.state, ir).el[ilo.v:ihi.v]
                    good = z3.BoolVal(len(pv) == len(iv) == N and all(a_ is b_ for a_, b_ in zip(pv, iv)))
            r = eng.check(pc + [z3.Not(good)])
            if r == z3.unsat: res['discharged'] += 1; res['nontrivial'] += 1
            elif r == z3.unknown: res['unknown'] = 'query unknown'
            else: res['violations'].append(viol(eng.solver.model()))
    res['samples'].append({'harness': 'Arena::par_iter vs Arena::iter', 'N': N, 'assumed': "rayon's slice iterator visits each element of its slice exactly once"})
    res['feas_queries'] = eng.nq; res['wall'] = time.time() - t0
    return res


def confirm_par_iter(prop, v):
    import replay, os, subprocess
    env = dict(os.environ); env['CARGO_NET_OFFLINE'] = 'true'
    td = os.path.join(replay.RDIR, 'target-all'); env['CARGO_TARGET_DIR'] = td
    p = subprocess.run(['cargo', 'build', '--offline', '--quiet', '--no-default-features', '--features', 'ix-all'], cwd=replay.RDIR, env=env, stdout=subprocess.PIPE, stderr=subprocess.PIPE, text=True)
    if p.returncode != 0: return 'not_reproduced', {'build_failed': p.stderr[-400:]}
    replay._built['feat-all'] = os.path.join(td, 'debug', 'replayer')
    detail = {}; status = 'not_reproduced'
    for n in sorted(set([len(v['pre']['slots']), 1, 2, 5, 70])):
        lines = ['new n%d %d' % (k, k % 250) for k in range(n)] + (['remove n0'] if n > 1 else []) + ['par_iter']
        res = replay.run_script(lines, 'feat-all')
        r = res.get(len(lines) - 1, ('MISSING', ''))
        detail['n=%d' % n] = r[1][:80]
        if r[0] != 'OK' or not r[1].strip().endswith('same=true'): status = 'reproduced'
    return status, detail


def run_identity_job(progs_texts, job):
    """textual part: every function of the base configuration has an identical body (modulo module-path printing) in the other"""
    t0 = time.time()
    res = new_result(job)
    base = progs_texts[tuple(job['base'])]; other = progs_texts[tuple(job['other'])]
    same, diff, missing, extra = compare_texts(base, other)
    res['paths'] = len(same) + len(diff); res['steps'] = len(same) + len(diff)
    res['identity'] = {'identical': len(same), 'differing': diff[:40], 'missing': missing[:40], 'extra_functions': len(extra),
                       'extra_sample': extra[:6]}
    res['samples'].append({'compared': [job['base'], job['other']], 'identical_functions': len(same), 'differing': diff[:10], 'only_in_other': len(extra)})
    res['nontrivial'] = len(same)
    res['wall'] = time.time() - t0
    return res


def confirm(prop, v):
    """native: build the replayer with both feature sets and compare what the operation does on the model's pre-state"""
    import replay, os, subprocess
    outs = {}
    detail = {}
    FE = {'std': 'std', 'nostd': '', 'all': 'std,macros,par_iter,deser'}
    for feat in v.get('feat', ['std', 'nostd']):
        env = dict(os.environ); env['CARGO_NET_OFFLINE'] = 'true'
        td = os.path.join(replay.RDIR, 'target-' + feat)
        env['CARGO_TARGET_DIR'] = td
        # the replayer crate has a fixed feature list; build a variant through --config
        p = subprocess.run(['cargo', 'build', '--offline', '--quiet', '--no-default-features', '--features', 'ix-' + feat], cwd=replay.RDIR, env=env, stdout=subprocess.PIPE, stderr=subprocess.PIPE, text=True)
        if p.returncode != 0:
            detail[feat] = {'build_failed': p.stderr[-400:]}; continue
        replay._built['feat-' + feat] = os.path.join(td, 'debug', 'replayer')
        if v['role'] == 'iter':
            rep = replay.replay_iter(dict(v, kind='iter'), 'feat-' + feat)
            outs[feat] = (rep.get('pre_ok'), rep.get('status'), rep.get('observed'))
        else:
            rep = replay.replay_mutator(v, 'feat-' + feat)
            outs[feat] = (rep['pre_ok'], rep['status'], rep['result'] if rep['status'] == 'OK' else '', str(rep['post']))
        detail[feat] = {'observed': [str(x)[:300] for x in outs[feat]]}
    if len(outs) < 2: return 'not_reproduced', detail
    vals = list(outs.values())
    if not all(o[0] for o in vals): return 'unreachable', detail
    if any(o != vals[0] for o in vals[1:]): return 'reproduced', detail
    return 'not_reproduced', detail
