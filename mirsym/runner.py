"""./check driver: regenerate MIR from /repo, run the property's jobs in parallel, replay counterexamples natively,
apply known findings, write evidence, set the exit code (DESIGN section 8)."""
import sys, os, time, json, hashlib, random, signal, traceback, shutil, argparse, subprocess
import multiprocessing as mp

HERE = os.path.dirname(os.path.abspath(__file__))
sys.path.insert(0, HERE)
import mirdump
from engine import Program, Unsupported
import z3

VERIF = mirdump.VERIF
PROGS = {}
MIRTEXT = {}


class JobTimeout(Exception):
    pass


def _alarm(signum, frame):
    raise JobTimeout()


def execute(job):
    """runs in a forked child"""
    import harness
    t0 = time.time()
    signal.signal(signal.SIGALRM, _alarm)
    signal.alarm(int(job.get('timeout', 600)))
    try:
        prog = PROGS.get((job['cfg'], job.get('feat', 'std')))
        k = job['kind']
        if k == 'mutator':
            r = harness.run_mutator_job(prog, job)
        elif k in ('c17_mut', 'c17_iter', 'c17_id', 'c17_pretty', 'c17_display', 'c17_par_iter'):
            import c17
            if k == 'c17_id': r = c17.run_identity_job(MIRTEXT, job)
            elif k == 'c17_pretty': r = c17.run_diff_pretty(PROGS, job)
            elif k == 'c17_display': r = c17.run_diff_display(PROGS, job)
            elif k == 'c17_par_iter': r = c17.run_par_iter_job(PROGS, job)
            else: r = (c17.run_diff_mutator if k == 'c17_mut' else c17.run_diff_iter)(PROGS, job)
        elif k in ('iter', 'pair', 'deiter'):
            import iters
            r = {'iter': iters.run_iter_job, 'pair': iters.run_pair_job, 'deiter': iters.run_de_job}[k](prog, job)
        else:
            mod = __import__(job['module'])
            r = getattr(mod, job['func'])(prog, job)
        try:
            import engine as _e
            fs, ms = set(), set()
            for obj in _e.Engine._instances:
                fs |= obj.called; ms |= obj.modelled
            r['functions'] = sorted(fs); r['modelled'] = sorted(ms)
            _e.Engine._instances = []
        except Exception:
            pass
    except JobTimeout:
        r = {'job': job, 'timeout': True}
    except Unsupported as e:
        r = {'job': job, 'unsupported': str(e)[:500]}
    except Exception as e:
        r = {'job': job, 'error': traceback.format_exc()[-2000:]}
    finally:
        signal.alarm(0)
        try:
            import engine as _e2
            _e2.Engine._instances = []
        except Exception:
            pass
    r.setdefault('wall', time.time() - t0)
    return r


def run_pool(jobs, nproc):
    ctx = mp.get_context('fork')
    results = []
    with ctx.Pool(processes=nproc, maxtasksperchild=4) as pool:
        for r in pool.imap_unordered(execute, jobs):
            results.append(r)
    return results


def load_known():
    p = os.path.join(VERIF, 'known_findings.json')
    if not os.path.exists(p): return {'findings': [], 'fixed': []}
    return json.load(open(p))


def known_match(known, prop, viol, names):
    for f in known.get('findings', []):
        if f['property'] != prop: continue
        if f.get('op') and f['op'] != viol['op']: continue
        if f.get('role') and f['role'] not in viol.get('role', '').split('+'): continue
        if f.get('check') and not any(n.startswith(f['check']) for n in names): continue
        return f
    return None


def confirm_mutator(prop, viol):
    """replay a mutator counterexample in dev and release builds; returns (status, detail)
    status: 'reproduced' | 'unreachable' | 'not_reproduced'"""
    import replay, harness
    mine = [n for n in viol['checks'] if n.startswith(prop + '.')]
    detail = {}
    status = 'not_reproduced'
    for profile in ('dev', 'release'):
        rep = replay.replay_mutator(viol, profile)
        d = {'pre_ok': rep['pre_ok'], 'status': rep['status'], 'result': rep['result'][:200]}
        detail[profile] = d
        detail.setdefault('script', rep['script'])
        if not rep['pre_ok']:
            d['note'] = 'pre-state of the model was not reached through the public API'
            if status == 'not_reproduced': status = 'unreachable'
            continue
        case = harness.case_from_replay(viol, rep)
        if case is None:
            d['note'] = 'native outcome could not be interpreted'; continue
        ob, info = harness.mutator_obligations(case)
        d['native_kind'] = info['kind']
        failed = []
        for (n, f) in ob:
            if n.startswith(prop + '.'):
                v = z3.simplify(f)
                if z3.is_false(v): failed.append(n)
                elif not z3.is_true(v):
                    s = z3.Solver(); s.add(z3.Not(f))
                    if s.check() == z3.sat: failed.append(n)
        d['failed_natively'] = failed[:20]
        if failed:
            status = 'reproduced'
    return status, detail


def confirm_iter(prop, viol):
    import replay
    detail = {}; status = 'not_reproduced'
    if viol.get('pre') is None: return 'not_reproduced', {'note': 'no model'}
    for profile in ('dev', 'release'):
        rep = replay.replay_iter(viol, profile)
        detail.setdefault('script', rep.pop('script', None))
        detail[profile] = rep
        if not rep.get('pre_ok'):
            if status == 'not_reproduced': status = 'unreachable'
            continue
        if rep.get('differs'): status = 'reproduced'
    return status, detail


def confirm(prop, viol):
    if os.environ.get('VERIF_NOCONFIRM'): return 'reproduced', {'note': 'native confirmation skipped (developer mode VERIF_NOCONFIRM)'}
    if viol.get('kind', 'mutator') in ('iter', 'deiter'): return confirm_iter(prop, viol)
    if viol.get('kind') == 'custom':
        mod = __import__(viol['module'])
        return getattr(mod, viol['confirm'])(prop, viol)
    return confirm_mutator(prop, viol)


def main():
    ap = argparse.ArgumentParser()
    ap.add_argument('prop')
    ap.add_argument('--tier', default=os.environ.get('VERIF_TIER', 'quick'))
    ap.add_argument('--replay', default=None)
    ap.add_argument('--jobs', type=int, default=int(os.environ.get('VERIF_JOBS', '16')))
    ap.add_argument('--only-op', default=None)
    ap.add_argument('--maxn', type=int, default=None)
    a = ap.parse_args()
    prop, tier = a.prop, a.tier
    if tier not in ('quick', 'thorough'): tier = 'quick'
    seed = int(os.environ.get('VERIF_SEED', '0') or 0)
    t0 = time.time()
    import props, replay
    if a.replay:
        viol = json.load(open(a.replay))
        status, detail = confirm(prop, viol['violation'])
        print(json.dumps({'status': status, 'detail': detail}, indent=1))
        if status == 'reproduced':
            print('VIOLATION property=%s replay=%s' % (prop, a.replay)); sys.exit(1)
        sys.exit(0 if status == 'not_reproduced' else 2)
    jobs = props.plan(prop, tier)
    if a.only_op: jobs = [j for j in jobs if j.get('op') == a.only_op]
    if a.maxn is not None: jobs = [j for j in jobs if j.get('N', 0) <= a.maxn]
    if not jobs:
        print('INCONCLUSIVE: no jobs for property %s' % prop); sys.exit(2)
    rnd = random.Random(seed)
    rnd.shuffle(jobs)
    jobs.sort(key=lambda j: -props.weight(j))
    cap = 900 if tier == 'quick' else 5400      # per-job wall cap (a timeout is inconclusive); generous: the harness machine may be slower
    for j in jobs:
        j['timeout'] = cap
        if tier == 'thorough': j['export_smt2'] = 4
        else: j['export_smt2'] = 1
    # ---- regenerate MIR from the current tree
    scratch = mirdump.scratch_root()
    try:
        need = sorted(set((j['cfg'], j.get('feat', 'std')) for j in jobs) | set(tuple(x) for j in jobs for x in j.get('needs', [])))
        shim_txt = mirdump.dump_shims(scratch)
        for (cfg, feat) in need:
            txt = mirdump.dump_repo(scratch, cfg, feat)
            MIRTEXT[(cfg, feat)] = txt
            PROGS[(cfg, feat)] = Program([(txt, mirdump.REPO), (shim_txt, mirdump.SHIMS)])
        t_dump = time.time() - t0
        results = run_pool(jobs, a.jobs)
    finally:
        shutil.rmtree(scratch, ignore_errors=True)
    # ---- aggregate
    incon = []
    tot = {'paths': 0, 'steps': 0, 'obligations': 0, 'discharged': 0, 'assert_queries': 0, 'feas_queries': 0, 'solver_time': 0.0, 'nontrivial': 0}
    identity = {}
    fn_used = set(); ext_used = set()
    viols = []; lemma_viols = []; samples = []; coverage = {}; outcomes = {}; smt2 = []
    jobsum = []
    for r in results:
        j = r['job']
        tag = '%s N=%d %s%s' % (j.get('op', j.get('name', '?')), j.get('N', -1), j['cfg'], (' t=%s x=%s' % (j.get('fix_t'), j.get('fix_x'))) if j.get('fix_x') is not None else '') + (' embedded' if j.get('embedded') else '')
        if r.get('timeout'): incon.append('timeout in job ' + tag)
        if r.get('unsupported'): incon.append('unsupported construct in job %s: %s' % (tag, r['unsupported']))
        if r.get('error'): incon.append('internal error in job %s: %s' % (tag, r['error']))
        if r.get('unknown'): incon.append('solver unknown in job %s: %s' % (tag, r['unknown']))
        if r.get('vacuous'): incon.append('vacuous pre-state in job ' + tag)
        for k in tot: tot[k] += r.get(k, 0)
        for v in r.get('violations', []): v['job'] = tag; viols.append(v)
        for v in r.get('lemma_violations', []): v['job'] = tag; lemma_viols.append(v)
        samples += r.get('samples', [])[:1]
        for k, v in r.get('coverage', {}).items():
            key = '%s:%s' % (j.get('op', j.get('name')), k)
            coverage[key] = coverage.get(key, False) or v
        for k, v in r.get('outcomes', {}).items():
            key = '%s:%s' % (j.get('op', j.get('name')), k)
            outcomes[key] = outcomes.get(key, 0) + v
        smt2 += r.get('smt2', [])
        if r.get('identity'): identity[tag] = r['identity']
        fn_used |= set(r.get('functions', [])); ext_used |= set(r.get('modelled', []))
        jobsum.append({'job': tag, 'paths': r.get('paths', 0), 'obligations': r.get('obligations', 0), 'wall_s': round(r.get('wall', 0), 2)})
        if r.get('paths', 1) == 0 and not r.get('vacuous'): incon.append('no path explored in job ' + tag)
    # vacuity: every named situation must be witnessed on a successful path at the largest N
    missing = [k for k, v in coverage.items() if not v]
    # ---- second solver on the exported queries
    cvc5_agree = cvc5_total = 0
    if smt2:
        import crosscheck
        rnd.shuffle(smt2)
        cvc5_total, cvc5_agree, bad = crosscheck.run(smt2, limit=(24 if tier == 'quick' else 400), nproc=a.jobs)
        for b in bad: incon.append('solver disagreement / error: ' + b)
    # ---- replay
    known = load_known()
    confirmed = []; knownhits = []; unconfirmed = []
    groups = {}
    for v in viols:
        mine = sorted(set(n.split('[')[0] for n in v['checks'] if n.startswith(prop + '.')))
        key = (v['op'], tuple(mine), v.get('role', ''), v['cfg'])
        groups.setdefault(key, []).append(v)
    os.makedirs(os.path.join(VERIF, 'replays'), exist_ok=True)
    for key, vs in sorted(groups.items(), key=lambda kv: str(kv[0])):
        cands = sorted(vs, key=lambda z: (z['N'], sum(abs(s['stamp']) for s in z['pre']['slots']) if z.get('pre') else 0))
        # one representative per distinct N, smallest first; a model that does not reproduce (e.g. an address layout that the
        # native allocator cannot produce for an empty Vec) does not hide a larger one that does
        tried = []; seenN = set()
        for c in cands:
            if c['N'] in seenN or len(tried) >= 4: continue
            seenN.add(c['N']); tried.append(c)
        status = 'not_reproduced'; detail = {}; v = tried[0]
        for c in tried:
            status, detail = confirm(prop, c); v = c
            if status == 'reproduced': break
        h = hashlib.sha1(json.dumps([key, v['args'], v['pre']], sort_keys=True).encode()).hexdigest()[:10]
        path = os.path.join(VERIF, 'replays', '%s-%s.json' % (prop, h))
        json.dump({'property': prop, 'kind': v.get('kind', 'mutator'), 'violation': v, 'native': detail, 'status': status}, open(path, 'w'), indent=1)
        names = [n for n in v['checks'] if n.startswith(prop + '.')]
        if status == 'reproduced':
            f = known_match(known, prop, v, names)
            if f: knownhits.append((f, v, path))
            else: confirmed.append((v, path, names))
        else:
            unconfirmed.append((v, path, status))
    # supporting invariant broken (natively confirmed): withhold the verdict unless this property itself has a confirmed violation
    seen_l = set()
    for v in lemma_viols:
        key = (v['op'], tuple(sorted(set(n.split('[')[0] for n in v['checks']))))
        if key in seen_l or len(seen_l) >= 3: continue
        seen_l.add(key)
        owner = v['checks'][0].split('.')[0]
        st_, det_ = (('reproduced', {}) if os.environ.get('VERIF_NOCONFIRM') else confirm_mutator(owner, v))
        if st_ == 'reproduced':
            incon.append('supporting invariant clause %s (property %s) is broken by %s (role %s, natively reproduced): the inductive argument for %s assumes it, verdict withheld - see ./check %s'
                         % (', '.join(key[1]), owner, v['op'], v.get('role'), prop, owner))
    for (v, path, status) in unconfirmed:
        incon.append('counterexample for %s (%s, role %s) did not reproduce natively (%s): %s' % (v['op'], v['checks'][0], v.get('role'), status, path))
    nval = 0
    try:
        if os.environ.get('VERIF_NOCONFIRM'): raise ImportError()
        import validate
        nval = 0
        for (cfg_, feat_), prog_ in sorted(PROGS.items()):
            if feat_ != 'std': continue
            n_, valerr = validate.run(prog_, tier, seed, profile=cfg_)       # dev MIR <-> dev build, release MIR <-> release build
            nval += n_
            for e_ in valerr: incon.append('translator validation mismatch (%s): %s' % (cfg_, e_))
    except ImportError:
        pass
    # ---- evidence
    fh = {}
    for key, txt in MIRTEXT.items():
        for n, hsh in mirdump.fn_hashes(txt).items(): fh['%s/%s::%s' % (key[0], key[1], n.split('>::')[-1] if '>::' in n else n)] = hsh
    ev = {
        'property_id': prop, 'tier': tier, 'seed': seed, 'level': 'model_checking',
        'coverage': {
            'states': max(tot['paths'], 0), 'transitions': tot['steps'], 'traces_validated_against_impl': nval,
            'samples': samples[:6] or [{'note': 'no sample'}],
            'obligations': tot['obligations'], 'discharged': tot['discharged'],
            'assertion_queries': tot['assert_queries'], 'feasibility_queries': tot['feas_queries'],
            'solver_time_s': round(tot['solver_time'], 2),
            'distinct_nontrivial': tot['nontrivial'],
            'rule': 'one case = one feasible MIR path of one operation from the symbolic INV pre-state (all arenas with exactly N slots); non-trivial = the operation returned (Ok/Err/value) rather than being cut',
            'jobs': sorted(jobsum, key=lambda z: z['job']),
            'outcomes': outcomes, 'situations_witnessed': coverage, 'situations_missing': missing,
            'functions_in_mir': len(fh),
            'functions_encoded': sorted(n.split('>::')[-1] if '>::' in n else n for n in fn_used),
            'functions_encoded_count': len(fn_used),
            'external_callees_modelled': sorted(ext_used),
            'function_hashes_sample': dict(list(sorted(fh.items()))[:12]),
            'bounds': {'tier': tier, 'N_slots': sorted(set(j.get('N', 0) for j in jobs)), 'configs': sorted(set(j['cfg'] for j in jobs)),
                       'stamps': 'full i16 range, symbolic', 'payload': '8-bit opaque identity', 'step_bound': '4000+3000*N MIR steps per path'},
            'second_solver': {'engine': 'cvc5', 'queries': cvc5_total, 'agree': cvc5_agree},
            'replayed_counterexamples': len(groups), 'inconclusive_reasons': incon[:20],
            'mir_dump_s': round(t_dump, 2), 'mir_identity': identity,
        },
        'assumptions': [
            'rustc MIR of the pinned nightly is the semantics of the crate (later lowering trusted)',
            'mirsym interpreter, /verif/shims models of core::option/result/iter functions, Vec/slice builtins',
            'arenas with more slots than the bound, allocation failure and usize overflow of len+1 are outside the claim',
            'ids of other arenas or of earlier generations of a live slot are outside the claim (documented as unchecked)',
            'generation encoding: live stamp s >= 0, freed stamp -s-1; INV is tied to it',
        ] + (['embedded jobs: the N modelled nodes are a link-closed component at symbolic positions of an arena of symbolic length <= 131072; the other slots are unconstrained (a read there sees an arbitrary node, a write there is reported as unsupported)'] if any(j.get('embedded') or j.get('func') == 'run_lookup_embedded_job' for j in jobs) else [])
          + (["par_iter: rayon's slice iterator visits every element of the slice it is given exactly once (rayon's contract, not encoded)"] if any(j.get('kind') == 'c17_par_iter' for j in jobs) else [])
          + (['single-tree family of the pretty printer: slots numbered in depth-first pre-order, all live, generation 0 (the printer follows links only); renderings restricted to `a` and `a\\nb`'] if any(j.get('family') == 'tree' for j in jobs) else []),
        'wall_s': round(time.time() - t0, 2),
        'violations': len(confirmed),
    }
    os.makedirs(os.path.join(VERIF, 'evidence'), exist_ok=True)
    evdir = os.environ.get('VERIF_EVIDENCE_DIR') or os.path.join(VERIF, 'evidence')
    os.makedirs(evdir, exist_ok=True)
    json.dump(ev, open(os.path.join(evdir, prop + '.json'), 'w'), indent=1, default=str)
    # ---- verdict
    print('%s tier=%s jobs=%d paths=%d obligations=%d discharged=%d feas_queries=%d assert_queries=%d solver=%.1fs wall=%.1fs' % (
        prop, tier, len(jobs), tot['paths'], tot['obligations'], tot['discharged'], tot['feas_queries'], tot['assert_queries'], tot['solver_time'], time.time() - t0))
    for (f, v, path) in knownhits:
        print('KNOWN-FINDING: property=%s %s' % (prop, f.get('description', f.get('op'))))
    if confirmed:
        for (v, path, names) in confirmed:
            print('violated: %s on %s role=%s cfg=%s' % (', '.join(sorted(set(n.split('[')[0] for n in names))), v['op'], v.get('role'), v['cfg']))
            print('VIOLATION property=%s replay=%s' % (prop, path))
        sys.exit(1)
    if incon:
        for i in incon[:30]: print('INCONCLUSIVE: ' + i)
        sys.exit(2)
    if missing:
        for k in missing: print('INCONCLUSIVE: coverage situation never witnessed: ' + k)
        sys.exit(2)
    print('OK property=%s held on everything explored' % prop)
    sys.exit(0)


if __name__ == '__main__':
    try:
        main()
    except SystemExit:
        raise
    except BaseException as e:
        # an internal failure of the machinery (MIR the parser does not know, a build problem, ...) decides nothing: exit 2, never 1
        import traceback
        traceback.print_exc()
        print('INCONCLUSIVE: internal error before a verdict: %s: %s' % (type(e).__name__, str(e)[:300]))
        sys.exit(2)
