"""Multi-step harnesses from a symbolic INV state: generation cycle (C06), allocation drain (C07), clear/new equivalence and
clone independence (C13)."""
import time
import z3
from engine import *
from symarena import *
import harness, iters
from harness import find_fn
from iters import new_result, check_obligations

T_, F_ = z3.BoolVal(True), z3.BoolVal(False)


def call_all(eng, st, f, args):
    s = st.copy()
    s.steps = 0            # the step bound is per call, not per history
    eng.push_call(s, f, args, None, None)
    return eng.run(s)


def base_ctx(prog, N, max_steps=None):
    eng = Engine(prog, max_steps=max_steps or (8000 + 6000 * N))
    A = SymArena(N)
    for c in A.inv(): eng.solver.add(c)
    st = State()
    acell = st.new_cell(A.value(spare=N + 2))
    return eng, A, st, acell


def viol(A, m, failed, op, N, extra=None):
    d = {'kind': 'custom', 'module': 'multistep', 'confirm': 'confirm', 'checks': failed, 'op': op, 'N': N, 'cfg': 'dev',
         'pre': A.model_dict(m), 'role': op, 'args': {}}
    if extra: d['args'] = {k: (m.eval(v, model_completion=True).as_long() if not isinstance(v, (int, str, list)) else v) for k, v in extra.items()}
    return d


def s16(v): return v - 65536 if v >= 32768 else v


# ---------------------------------------------------------------------------------------------
def run_cycle_job(prog, job):
    """C06: live slot x (stamp s0); remove(x) [or remove_subtree]; allocate until slot x is handed out again.
    Every id (x, g) with 0 <= g <= s0 reports is_removed()==true in every later state; the reissued stamp is new."""
    t0 = time.time()
    N = job['N']; how = job.get('how', 'remove')
    prefixes = tuple(p + '.' for p in job['props'])
    eng, A, st, acell = base_ctx(prog, N)
    res = new_result(job)
    x = z3.BitVec('x', 64); g = z3.BitVec('g', 16)
    live = [A.live(i) for i in range(N)]
    s0 = sel(A.stamp, x)
    eng.solver.add(z3.UGE(x, 1), z3.ULE(x, N), sel(live, x), g >= 0, g <= s0)
    if eng.solver.check() != z3.sat:
        res['vacuous'] = True; return res
    aref = Ref(acell, ())
    idx = mk_id(x, s0); old = mk_id(x, g)
    is_removed = find_fn(prog, 'NodeId', 'is_removed')
    new_node = find_fn(prog, 'Arena', 'new_node')
    rm = find_fn(prog, 'NodeId', how)
    nd = z3.BitVec('nd', 8)
    cov = {'reissued': False, 'retired': False, 'reissued_after_others': False, 'old_generation_id': False}

    def assert_removed(s, label, extra):
        # is_removed(old id) must be true now
        for o in call_all(eng, s, is_removed, [old, aref]):
            res['paths'] += 1; res['steps'] += o.state.steps
            if o.kind != 'return': ob = [('C06.is_removed_no_panic[%s]' % label, F_)]
            else: ob = [('C06.is_removed_stays_true[%s]' % label, zb(o.value))]
            check_obligations(eng, list(o.state.pc), ob, prefixes, res, lambda m, failed: viol(A, m, failed, 'cycle_' + how, N, dict(extra, x=x, g=g)))

    # before removal: the current id is not removed
    for o in call_all(eng, st, is_removed, [idx, aref]):
        if o.kind == 'return':
            check_obligations(eng, list(o.state.pc), [('C06.live_id_not_removed', z3.Not(zb(o.value)))], prefixes, res, lambda m, failed: viol(A, m, failed, 'cycle_' + how, N, {'x': x, 'g': g}))
    for o in call_all(eng, st, rm, [idx, aref]):
        res['paths'] += 1
        if o.kind != 'return':
            # removing a live node is a valid call: if it does not complete, the id never becomes a removed id in an orderly way
            check_obligations(eng, list(o.state.pc), [('C06.removal_of_a_live_node_completes', F_)], prefixes, res,
                              lambda m, failed: viol(A, m, failed, 'cycle_' + how, N, {'x': x, 'g': g}))
            continue
        s1 = o.state
        assert_removed(s1, 'after_' + how, {'allocs': 0})
        work = [(s1, 0)]
        while work:
            s, k = work.pop()
            if k > N:
                # never handed out again within N+1 allocations: must be retired for good
                V = View(s.store[acell])
                ob = [('C06.not_reissued_means_retired', z3.And(sel(V.stamp, x) == I16MIN, s0 == 32767))]
                if eng.check(list(s.pc)) == z3.sat: cov['retired'] = True
                check_obligations(eng, list(s.pc), ob, prefixes, res, lambda m, failed: viol(A, m, failed, 'cycle_' + how, N, {'x': x, 'g': g, 'allocs': k}))
                continue
            for o2 in call_all(eng, s, new_node, [aref, Opq(nd)]):
                res['paths'] += 1; res['steps'] += o2.state.steps
                if o2.kind != 'return': continue
                rid = o2.value
                ridx, rst = zb(rid.f[0].f[0]), zb(rid.f[1].f[0])
                same = (ridx == x)
                if eng.feasible(o2.state, same):
                    s2 = o2.state.copy(); s2.pc.append(same); s2.model = None
                    cov['reissued'] = True
                    if k > 0: cov['reissued_after_others'] = True
                    ob = [('C06.reissued_id_is_new', z3.And(rst > s0, rst != g))]
                    check_obligations(eng, list(s2.pc), ob, prefixes, res, lambda m, failed: viol(A, m, failed, 'cycle_' + how, N, {'x': x, 'g': g, 'allocs': k + 1}))
                    assert_removed(s2, 'after_reissue', {'allocs': k + 1})
                    # the new id is live
                    for o3 in call_all(eng, s2, is_removed, [rid, aref]):
                        if o3.kind == 'return':
                            check_obligations(eng, list(o3.state.pc), [('C06.new_id_not_removed', z3.Not(zb(o3.value)))], prefixes, res,
                                              lambda m, failed: viol(A, m, failed, 'cycle_' + how, N, {'x': x, 'g': g, 'allocs': k + 1}))
                    res['nontrivial'] += 1
                ns = z3.Not(same)
                if eng.feasible(o2.state, ns):
                    s3 = o2.state.copy(); s3.pc.append(ns); s3.model = None
                    assert_removed(s3, 'while_free', {'allocs': k + 1})
                    work.append((s3, k + 1))
    if eng.solver.check(g < s0) == z3.sat: cov['old_generation_id'] = True
    res['coverage'] = cov
    res['feas_queries'] = eng.nq; res['solver_time'] += eng.tq
    res['wall'] = time.time() - t0
    return res


# ---------------------------------------------------------------------------------------------
def run_drain_job(prog, job):
    """C07: (optionally after remove_subtree / remove of a symbolic node) N+1 consecutive allocations return pairwise distinct
    slots: first exactly the free-listed ones in FIFO order, then fresh slots; count() grows only when the list is empty."""
    t0 = time.time()
    N = job['N']; first = job.get('first')
    prefixes = tuple(p + '.' for p in job['props'])
    eng, A, st, acell = base_ctx(prog, N)
    res = new_result(job)
    aref = Ref(acell, ())
    new_node = find_fn(prog, 'Arena', 'new_node')
    x = z3.BitVec('x', 64)
    starts = []
    if first:
        live = [A.live(i) for i in range(N)]
        eng.solver.add(z3.UGE(x, 1), z3.ULE(x, N), sel(live, x))
        if eng.solver.check() != z3.sat:
            res['vacuous'] = True; return res
        for o in call_all(eng, st, find_fn(prog, 'NodeId', first), [mk_id(x, sel(A.stamp, x)), aref]):
            if o.kind == 'return': starts.append(o.state)
    else:
        starts.append(st)
    cov = {'drained_two_or_more': False, 'grew_after_drain': False, 'freed_many_at_once': False}
    for s0_ in starts:
        V0 = View(s0_.store[acell])
        onl0 = [z3.And(z3.Not(V0.live(i)), V0.stamp[i] > I16MIN) for i in range(N)]
        nfree = sum([z3.If(o, BV64(1), BV64(0)) for o in onl0], BV64(0))
        if first == 'remove_subtree':
            pre = View(A.value())
            gone = sum([z3.If(z3.And(pre.live(i), z3.Not(V0.live(i))), 1, 0) for i in range(N)], z3.IntVal(0))
            if not cov['freed_many_at_once'] and eng.check(s0_.pc + [gone >= 2]) == z3.sat: cov['freed_many_at_once'] = True
        # reference FIFO order of the free list in the start state: walk
        work = [(s0_, [], 0)]
        while work:
            s, got, k = work.pop()
            if k == N + 1:
                res['paths'] += 1; res['steps'] += s.steps
                ob = []
                if len(got) >= 2: ob.append(('C07.drain_distinct', z3.Distinct(*[i for (i, _, _) in got])))
                # the first nfree allocations recycle free-listed slots (any order, each once: pairwise distinct above),
                # the later ones are the fresh slots N+1, N+2, ... in order; count() grows only once the list is empty
                for j, (ri, rs, cnt_after) in enumerate(got):
                    recyc = z3.ULT(BV64(j), nfree)
                    ob.append(('C07.drain_recycles_free_slot[%d]' % j, z3.Implies(recyc, sel(onl0, ri, F_) if N else F_)))
                    ob.append(('C07.drain_fresh_slot[%d]' % j, z3.Implies(z3.Not(recyc), ri == BV64(N + 1 + j) - nfree)))
                    ob.append(('C07.drain_count[%d]' % j, BV64(cnt_after) == z3.If(z3.UGE(nfree, BV64(j + 1)), BV64(N), BV64(N + j + 1) - nfree)))
                Vn = View(s.store[acell])
                ob.append(('C07.drain_list_empty', z3.Not(Vn.ff_some)))
                if eng.solver.check(*(s.pc + [z3.UGE(nfree, BV64(2))])) == z3.sat: cov['drained_two_or_more'] = True
                if eng.solver.check(*(s.pc + [z3.UGE(nfree, BV64(1)), z3.ULE(nfree, BV64(N - 1))])) == z3.sat: cov['grew_after_drain'] = True
                res['nontrivial'] += 1
                if len(res['samples']) < 2 and eng.check(list(s.pc)) == z3.sat:
                    m = eng.solver.model()
                    res['samples'].append({'harness': 'drain', 'first': first, 'N': N, 'pre': A.model_dict(m),
                                           'returned_slots': [m.eval(i, model_completion=True).as_long() for (i, _, _) in got]})
                check_obligations(eng, list(s.pc), ob, prefixes, res, lambda m, failed: viol(A, m, failed, 'drain', N, {'first': first or '', 'x': x}))
                continue
            for o in call_all(eng, s, new_node, [aref, Opq(z3.BitVec('nd%d' % k, 8))]):
                if o.kind != 'return':
                    res['paths'] += 1
                    check_obligations(eng, list(o.state.pc), [('C07.alloc_no_panic', F_)], prefixes, res, lambda m, failed: viol(A, m, failed, 'drain', N, {'first': first or '', 'x': x}))
                    continue
                rid = o.value
                Vk = View(o.state.store[acell])
                work.append((o.state, got + [(zb(rid.f[0].f[0]), zb(rid.f[1].f[0]), Vk.N)], k + 1))
    res['coverage'] = {k: v for k, v in cov.items() if (N >= 2 and (k != 'freed_many_at_once' or first == 'remove_subtree'))}
    res['feas_queries'] = eng.nq; res['solver_time'] += eng.tq
    res['wall'] = time.time() - t0
    return res


# ---------------------------------------------------------------------------------------------
def confirm(prop, v):
    """native replay of a multi-step counterexample"""
    import replay
    pre = v['pre']; a = v['args']; op = v['op']
    detail = {}; status = 'not_reproduced'
    for profile in ('dev', 'release'):
        old = []
        lines = None
        if op.startswith('cycle_'):
            how = op[len('cycle_'):]
            xs = a['x']; g = s16(a['g']) if a['g'] >= 32768 else a['g']
            cur = pre['slots'][xs - 1]['stamp']
            if g != cur: old = [(xs, g)]
        lines = replay.construct_script(pre, old)
        # construct_script only keeps old ids for removed slots; for a live slot we need the older id too
        n0 = len(lines)
        N = len(pre['slots'])
        if op.startswith('cycle_'):
            oldreg = 's%d' % xs if g == cur else 'o%d_%d' % (xs, g)
            if g != cur and ('copy %s s%d' % (oldreg, xs)) not in lines:
                detail[profile] = {'pre_ok': False, 'note': 'old id not constructible'}; status = 'unreachable' if status == 'not_reproduced' else status; continue
            lines += ['%s s%d' % (how, xs), 'is_removed %s' % oldreg]
            for k in range(N + 1):
                lines += ['new z%d %d' % (k, 200 + k), 'is_removed %s' % oldreg]
            res = replay.run_script(lines, profile)
            d = res.get(n0 - 1)
            try: got = replay.parse_dump(d[1]) if d and d[0] == 'OK' else None
            except ValueError: got = None
            ok = bool(got) and replay.same_state(got, pre)
            bad = []
            issued = set()
            for k in range(n0, len(lines)):
                r = res.get(k)
                if lines[k].startswith('is_removed') and (r is None or r[0] != 'OK' or r[1].strip() != 'true'): bad.append((lines[k], r))
                if k == n0 and (r is None or r[0] != 'OK'): bad.append((lines[k], r))          # the removal of the live node itself
                if lines[k].startswith('new ') and r and r[0] == 'OK':
                    pid = replay.parse_id(r[1])
                    if pid and pid[0] == xs and pid[1] <= cur: bad.append((lines[k], r))
            detail[profile] = {'pre_ok': ok, 'bad': [str(b) for b in bad][:6]}
        else:
            first = a.get('first') or ''
            if first: lines.append('%s s%d' % (first, a['x']))
            lines.append('dump')
            nd = len(lines) - 1
            for k in range(N + 1): lines += ['new z%d %d' % (k, 200 + k), 'count']
            res = replay.run_script(lines, profile)
            d = res.get(n0 - 1)
            try: got = replay.parse_dump(d[1]) if d and d[0] == 'OK' else None
            except ValueError: got = None
            ok = bool(got) and replay.same_state(got, pre)
            bad = []
            try:
                st0 = replay.parse_dump(res[nd][1])
                order = []; c = st0['first_free']
                while c is not None and len(order) <= N: order.append(c + 1); c = st0['slots'][c]['next_free']
                n0slots = len(st0['slots'])
                expect = order + [n0slots + 1 + j for j in range(N + 1 - len(order))]
                gotids = []
                for k in range(N + 1):
                    r = res.get(nd + 1 + 2 * k)
                    pid = replay.parse_id(r[1]) if r and r[0] == 'OK' else None
                    gotids.append(pid[0] if pid else None)
                k_ = len(order)
                if sorted(x_ for x_ in gotids[:k_] if x_ is not None) != sorted(order) or gotids[k_:] != expect[k_:N + 1]:
                    bad.append('allocations returned %s, expected the free slots %s (any order) then %s' % (gotids, order, expect[k_:N + 1]))
                nonfree = [i + 1 for i, s_ in enumerate(st0['slots']) if s_['stamp'] < 0 and s_['stamp'] > -32768 and (i + 1) not in order]
                if nonfree: bad.append('removed reusable slots not on the free list: %s' % nonfree)
            except Exception as e:
                bad.append('cannot interpret native run: %r' % e)
            detail[profile] = {'pre_ok': ok, 'bad': bad}
        detail.setdefault('script', lines)
        if not detail[profile]['pre_ok']:
            if status == 'not_reproduced': status = 'unreachable'
        elif detail[profile]['bad']:
            status = 'reproduced'
    return status, detail


# ---------------------------------------------------------------------------------------------
# Histories beyond one step: free -> drain the free list -> one more mutator -> traversals.
# The one-step induction assumes INV in the pre-state; this harness assumes it only at the start and then follows the real
# code for up to N+2 further calls, so that faults made of two cooperating sites (a free that leaves something behind, an
# allocation that relies on it) show up as violations of the property itself and not only of the supporting invariant.

def run_history_job(prog, job):
    t0 = time.time()
    N = job['N']; free_op = job['free_op']; final_ops = job.get('final_ops', [])
    its = job.get('iters', ['descendants', 'ancestors', 'following_siblings'])
    prefixes = tuple(p + '.' for p in job['props'])
    eng, A, st, acell = base_ctx(prog, N, max_steps=20000 + 8000 * N)
    res = new_result(job)
    x = z3.BitVec('x', 64)
    live = [A.live(i) for i in range(N)]
    eng.solver.add(z3.UGE(x, 1), z3.ULE(x, N), sel(live, x))
    if eng.solver.check() != z3.sat:
        res['vacuous'] = True; return res
    aref = Ref(acell, ())
    new_node = find_fn(prog, 'Arena', 'new_node')
    cov = {'freed_two_or_more': False, 'recycled_former_parent_and_child': False}
    tag1 = '@%s+drain' % free_op

    def hv(m, failed, phase, extra=None):
        d = {'kind': 'custom', 'module': 'multistep', 'confirm': 'confirm_history', 'checks': failed, 'op': 'history_' + free_op, 'N': N, 'cfg': 'dev',
             'pre': A.model_dict(m), 'role': phase, 'args': {'x': m.eval(x, model_completion=True).as_long(), 'free_op': free_op, 'phase': phase}}
        if extra:
            for k, v in extra.items(): d['args'][k] = v if isinstance(v, (int, str, list)) else m.eval(v, model_completion=True).as_long()
        return d

    def named(ob, tag): return [('%s%s' % (n, tag), f) for (n, f) in ob]

    for o1 in call_all(eng, st, find_fn(prog, 'NodeId', free_op), [mk_id(x, sel(A.stamp, x)), aref]):
        res['paths'] += 1; res['steps'] += o1.state.steps
        if o1.kind != 'return': continue
        # ---- drain: allocate while the free list is non-empty
        work = [(o1.state, 0)]; drained = []
        while work:
            s, k = work.pop()
            V = View(s.store[acell])
            if k <= N and eng.feasible(s, V.ff_some):
                s1 = s.copy(); s1.pc.append(V.ff_some); s1.model = None
                for o2 in call_all(eng, s1, new_node, [aref, Opq(BV8(200 + k))]):
                    res['paths'] += 1; res['steps'] += o2.state.steps
                    if o2.kind == 'return': work.append((o2.state, k + 1))
                    else:
                        check_obligations(eng, list(o2.state.pc), [('%s.history_call_completes@%s' % (p_, free_op), F_) for p_ in job['props']], prefixes, res, lambda m, f: hv(m, f, 'drain'))
            nf = z3.Not(V.ff_some)
            if eng.feasible(s, nf):
                s2 = s.copy(); s2.pc.append(nf); s2.model = None
                drained.append((s2, k))
        for (s2, k) in drained:
            V2 = View(s2.store[acell])
            ob = named(inv_links(V2) + inv_acyclic(V2) + inv_freelist(V2), tag1)
            V1 = View(o1.state.store[acell])
            for i in range(N):
                ob.append(('C08.payload_frame[%d]%s' % (i + 1, tag1), z3.Implies(z3.And(A.live(i), V1.live(i)), z3.And(V2.is_data[i], V2.data[i] == A.data[i]))))
            if k >= 2 and eng.check(list(s2.pc)) == z3.sat: cov['freed_two_or_more'] = True
            check_obligations(eng, list(s2.pc), ob, prefixes, res, lambda m, f, k=k: hv(m, f, 'drain', {'allocs': k}))
            res['nontrivial'] += 1
            if not final_ops: continue
            n2 = V2.N
            t = z3.BitVec('ht', 64); y = z3.BitVec('hy', 64)
            live2 = [V2.live(i) for i in range(n2)]
            s3 = s2.copy()
            cond = z3.And(z3.UGE(t, 1), z3.ULE(t, n2), z3.UGE(y, 1), z3.ULE(y, n2), sel(live2, t), sel(live2, y), t != y)
            if not eng.feasible(s3, cond): continue
            s3.pc.append(cond); s3.model = None
            idt = mk_id(t, sel(V2.stamp, t)); idy = mk_id(y, sel(V2.stamp, y))
            for fop in final_ops:
                for o3 in call_all(eng, s3, find_fn(prog, 'NodeId', fop), [idt, idy, aref]):
                    res['paths'] += 1; res['steps'] += o3.state.steps
                    tag3 = '@%s+drain+%s' % (free_op, fop)
                    ext = {'allocs': k, 'final_op': fop, 't': t, 'y': y}
                    if o3.kind == 'bound':
                        check_obligations(eng, list(o3.state.pc), [('C02.terminates' + tag3, F_)], prefixes, res, lambda m, f, ext=ext: hv(m, f, 'final', ext)); continue
                    if o3.kind != 'return':
                        check_obligations(eng, list(o3.state.pc), [('%s.history_call_completes%s' % (p_, tag3), F_) for p_ in job['props']], prefixes, res, lambda m, f, ext=ext: hv(m, f, 'final', ext)); continue
                    V3 = View(o3.state.store[acell])
                    ob = named(inv_links(V3) + inv_acyclic(V3), tag3)
                    check_obligations(eng, list(o3.state.pc), ob, prefixes, res, lambda m, f, ext=ext: hv(m, f, 'final', ext))
                    if not any(p.startswith('C02') for p in prefixes): continue
                    # traversals from any live node of the final state are finite
                    z = z3.BitVec('hz', 64)
                    live3 = [V3.live(i) for i in range(V3.N)]
                    s4 = o3.state.copy(); cz = z3.And(z3.UGE(z, 1), z3.ULE(z, V3.N), sel(live3, z))
                    s4.pc.append(cz); s4.model = None
                    for kind in its:
                        ctor = find_fn(prog, 'NodeId', kind)
                        s5 = s4.copy()
                        eng.push_call(s5, ctor, [mk_id(z, sel(V3.stamp, z)), aref], None, None)
                        starts = []
                        for oc in eng.run(s5):
                            if oc.kind == 'return': starts.append((oc.state, oc.state.new_cell(oc.value), []))
                        for (s6, _, seq, fin) in iters.drive(eng, starts, iters.method_lookup(prog, iters.ITER_TYPE[kind]), 2 * V3.N + 2):
                            res['paths'] += 1; res['steps'] += s6.steps
                            ok = fin is True and len(seq) <= (2 * V3.N if kind in iters.EDGE else V3.N)
                            ob = [('C02.iterator_finite[%s]%s' % (kind, tag3), z3.BoolVal(ok))]
                            check_obligations(eng, list(s6.pc), ob, prefixes, res, lambda m, f, ext=dict(ext, iter=kind, z=z): hv(m, f, 'final', ext))
    res['coverage'] = {k: v for k, v in cov.items() if k == 'freed_two_or_more' and N >= 2 and free_op == 'remove_subtree'}
    if eng.solver.check() == z3.sat:
        res['samples'].append({'harness': 'history: %s -> drain -> %s -> traversals' % (free_op, final_ops), 'N': N, 'pre': A.model_dict(eng.solver.model())})
    res['feas_queries'] = eng.nq; res['solver_time'] += eng.tq
    res['wall'] = time.time() - t0
    return res


def confirm_history(prop, v):
    import replay, re
    pre = v['pre']; a = v['args']
    detail = {}; status = 'not_reproduced'
    for profile in ('dev', 'release'):
        lines = replay.construct_script(pre)
        n0 = len(lines)
        lines.append('%s s%d' % (a['free_op'], a['x']))
        nalloc = a.get('allocs', 0)
        for k in range(nalloc): lines.append('new z%d %d' % (k, 200 + k))
        lines.append('dump')
        nd = len(lines) - 1
        res = replay.run_script(lines, profile)
        d = res.get(n0 - 1)
        try: got = replay.parse_dump(d[1]) if d and d[0] == 'OK' else None
        except ValueError: got = None
        ok = bool(got) and replay.same_state(got, pre)
        bad = []
        try:
            mid = replay.parse_dump(res[nd][1])
        except Exception:
            mid = None
        for k_ in range(n0, len(lines)):
            r_ = res.get(k_)
            if r_ and r_[0] in ('PANIC', 'TIMEOUT', 'CRASH'): bad.append('%s: %s %s' % (lines[k_], r_[0], r_[1][:80]))
        if ok and mid is not None:
            if a['phase'] == 'drain':
                V = View.from_dict(mid)
                for (n, f) in inv_links(V) + inv_acyclic(V) + inv_freelist(V):
                    if n.startswith(prop + '.') and z3.is_false(z3.simplify(f)): bad.append(n)
            else:
                # registers of the final state: find the id of slots t, y, z in the dump
                def reg_of(slot):
                    st_ = mid['slots'][slot - 1]['stamp']
                    return ('NodeId', slot, st_)
                # ids are addressed by allocating order: recover register names by matching returned ids
                idmap = {}
                for k in range(n0):
                    pass
                # simpler: re-run with explicit lookups: every register that is live and current for a slot
                regs = {}
                full = replay.run_script(lines[:nd], profile)
                for k, ln in enumerate(lines[:nd]):
                    w = ln.split()
                    r = full.get(k)
                    if r and r[0] == 'OK' and w[0] in ('new', 'cycle', 'copy'):
                        pid = replay.parse_id(r[1])
                        if pid: regs[pid] = w[1]
                def reg(slot):
                    return regs.get((slot, mid['slots'][slot - 1]['stamp']))
                rt, ry = reg(a['t']), reg(a['y'])
                if rt and ry:
                    l2 = lines[:nd] + ['%s %s %s' % (a['final_op'], rt, ry), 'dump']
                    if a.get('iter'):
                        rz = reg(a['z'])
                        if rz: l2.append('iter %s %s' % (a['iter'], rz))
                    r2 = replay.run_script(l2, profile, timeout=20)
                    fo = r2.get(nd, ('MISSING', ''))
                    if fo[0] in ('TIMEOUT', 'CRASH', 'PANIC'): bad.append('final operation did not return normally: %s %s' % (fo[0], fo[1][:80]))
                    try:
                        fin = replay.parse_dump(r2[nd + 1][1])
                        V = View.from_dict(fin)
                        for (n, f) in inv_links(V) + inv_acyclic(V):
                            if n.startswith(prop + '.') and z3.is_false(z3.simplify(f)): bad.append(n)
                    except Exception:
                        pass
                    if a.get('iter'):
                        ri = r2.get(nd + 2)
                        if ri is None or ri[0] != 'OK' or 'LIMIT' in ri[1]: bad.append('iterator %s did not finish: %s' % (a['iter'], (ri or ('', ''))[0]))
                    lines = l2
        detail[profile] = {'pre_ok': ok, 'bad': bad[:8]}
        detail.setdefault('script', lines)
        if not ok:
            if status == 'not_reproduced': status = 'unreachable'
        elif bad: status = 'reproduced'
    return status, detail


# ---------------------------------------------------------------------------------------------
def run_append_value_equiv_job(prog, job):
    """C03: append_value(v) leaves the arena equal to new_node(v) followed by append (path-pair differential from the same
    symbolic state, live parent). C08: dropping the arena drops every live payload exactly once."""
    t0 = time.time()
    N = job['N']
    prefixes = tuple(p + '.' for p in job['props'])
    eng, A, st, acell = base_ctx(prog, N)
    res = new_result(job)
    t = z3.BitVec('t', 64); nd = z3.BitVec('newdata', 8)
    live = [A.live(i) for i in range(N)]
    eng.solver.add(z3.UGE(t, 1), z3.ULE(t, N), sel(live, t))
    if eng.solver.check() != z3.sat:
        res['vacuous'] = True; return res
    aref = Ref(acell, ())
    idt = mk_id(t, sel(A.stamp, t))
    mv = lambda m, failed: dict(viol(A, m, failed, 'append_value_equiv', N, {'t': t}), confirm='confirm_equiv')
    left = []
    for o in call_all(eng, st, find_fn(prog, 'NodeId', 'append_value'), [idt, Opq(nd), aref]):
        res['paths'] += 1; res['steps'] += o.state.steps
        if o.kind == 'return': left.append((o.state, o.value))
        else: check_obligations(eng, list(o.state.pc), [('C03.append_value_no_panic_on_live_parent', F_)], prefixes, res, mv)
    right = []
    for o in call_all(eng, st, find_fn(prog, 'Arena', 'new_node'), [aref, Opq(nd)]):
        res['paths'] += 1; res['steps'] += o.state.steps
        if o.kind != 'return': continue
        for o2 in call_all(eng, o.state, find_fn(prog, 'NodeId', 'append'), [idt, o.value, aref]):
            res['paths'] += 1; res['steps'] += o2.state.steps
            if o2.kind == 'return': right.append((o2.state, o.value))
            else: check_obligations(eng, list(o2.state.pc), [('C03.new_node_then_append_no_panic', F_)], prefixes, res, mv)
    import specs
    for (sl, idl) in left:
        for (sr, idr) in right:
            pc = list(sl.pc) + list(sr.pc)
            if eng.check(pc) != z3.sat: continue
            ob = specs.arena_equal(View(sl.store[acell]), View(sr.store[acell]), 'C03.append_value_equals_new_node_then_append')
            ob.append(('C03.append_value_returns_same_id', z3.And(zb(idl.f[0].f[0]) == zb(idr.f[0].f[0]), zb(idl.f[1].f[0]) == zb(idr.f[1].f[0]))))
            check_obligations(eng, pc, ob, prefixes, res, mv)
            res['nontrivial'] += 1
    # ---- C08: dropping the whole arena
    dv = prog.free.get('drop_value')
    if dv is not None and any(p.startswith('C08') for p in prefixes):
        s0 = st.copy()
        val = s0.store[acell]
        for o in call_all(eng, s0, dv, [val]):
            res['paths'] += 1
            if o.kind != 'return': continue
            drops = o.state.drops
            livedata = [z3.If(A.live(i), z3.ZeroExt(8, A.data[i]), z3.BitVecVal(256 + i, 16)) for i in range(N)]
            distinct = z3.Distinct(*livedata) if N > 1 else T_
            ob = []
            for i in range(N):
                cnt = sum([z3.If(z3.And(zbool(c), e == A.data[i]), 1, 0) for (c, e) in drops], z3.IntVal(0))
                ob.append(('C08.arena_drop_drops_each_live_payload_once[%d]' % (i + 1), z3.Implies(z3.And(distinct, A.live(i)), cnt == 1)))
            check_obligations(eng, list(o.state.pc), ob, prefixes, res, mv)
    if eng.solver.check() == z3.sat:
        res['samples'].append({'harness': 'append_value(v) vs new_node(v); append', 'N': N, 'pre': A.model_dict(eng.solver.model())})
    res['feas_queries'] = eng.nq; res['solver_time'] += eng.tq
    res['wall'] = time.time() - t0
    return res


def confirm_equiv(prop, v):
    import replay
    pre = v['pre']; a = v['args']
    detail = {}; status = 'not_reproduced'
    for profile in ('dev', 'release'):
        base = replay.construct_script(pre)
        n0 = len(base)
        l1 = base + ['append_value s%d 77 rnew' % a['t'], 'dump']
        l2 = base + ['new rnew 77', 'append s%d rnew' % a['t'], 'dump']
        r1 = replay.run_script(l1, profile); r2 = replay.run_script(l2, profile)
        try:
            got = replay.parse_dump(r1[n0 - 1][1]); ok = replay.same_state(got, pre)
            d1 = replay.parse_dump(r1[n0 + 1][1]); d2 = replay.parse_dump(r2[n0 + 2][1])
            differs = not replay.same_state(d1, d2) or r1[n0][1] != r2[n0][1]
        except Exception as e:
            ok = False; differs = False
        detail[profile] = {'pre_ok': ok, 'differs': differs}
        detail.setdefault('script', l1)
        if not ok:
            if status == 'not_reproduced': status = 'unreachable'
        elif differs: status = 'reproduced'
    return status, detail


# ---------------------------------------------------------------------------------------------
def run_move_then_remove_job(prog, job):
    """C08 / C04 over two calls: a checked insert moves node x away from its parent `old`, then old.remove_subtree(): exactly the
    nodes that the DOCUMENTED effect of the move leaves under `old` disappear; every other node keeps its payload and is not
    dropped (a move that leaves a stale child link behind makes the second call free a live node that was moved away)."""
    import specs
    t0 = time.time()
    op1, N = job['op_mut'], job['N']
    prefixes = tuple(p + '.' for p in job['props'])
    ctx = harness.Ctx(prog, op1, N, job.get('fix_t'), job.get('fix_x'))
    eng = ctx.eng; A = ctx.A; pre = ctx.pre
    res = new_result(job)
    x, t = ctx.x, ctx.t
    has_old = sel(pre.some['parent'], x); old = sel(pre.idx['parent'], x)
    eng.solver.add(ctx.t_live, ctx.x_live, has_old)
    if eng.solver.check() != z3.sat:
        res['vacuous'] = True; return res
    outs = ctx.explore()
    npar, nprv = specs.insert_abstraction(harness.base_op(op1), pre, t, x)
    # membership in subtree(old) according to the expected abstraction after the move
    def under_old(i):
        r = (old == i + 1)
        sm, cur = npar[i]
        for _ in range(N):
            r = z3.Or(r, z3.And(sm, cur == old))
            sm2 = sel([p[0] for p in npar], cur); c2 = sel([p[1] for p in npar], cur)
            sm, cur = z3.And(sm, sm2), c2
        return r
    gone = [z3.And(A.live(i), under_old(i)) for i in range(N)]
    rsub = find_fn(prog, 'NodeId', 'remove_subtree')
    aref = Ref(ctx.acell, ())
    id_old = mk_id(old, sel(A.stamp, old))
    def mv(m, failed):
        return {'kind': 'custom', 'module': 'multistep', 'confirm': 'confirm_move_then_remove', 'checks': failed, 'op': op1, 'N': N, 'cfg': 'dev', 'role': 'move_then_remove',
                'pre': A.model_dict(m), 'args': dict(ctx.args_dict(m), old=m.eval(old, model_completion=True).as_long())}
    for o in outs:
        res['paths'] += 1; res['steps'] += o.state.steps
        kind, rv = harness.result_class(op1, o)
        if kind != 'result': continue
        is_ok = zb(S(rv.d.v, 'isize')) == 0
        if not eng.feasible(o.state, is_ok): continue
        s1 = o.state.copy(); s1.pc.append(is_ok); s1.model = None; s1.drops = []
        for o2 in call_all(eng, s1, rsub, [id_old, aref]):
            res['paths'] += 1; res['steps'] += o2.state.steps
            if o2.kind != 'return':
                ob = [('%s.second_call_completes' % p_, F_) for p_ in job['props']]
            else:
                V2 = View(o2.state.store[ctx.acell])
                ob = []
                livedata = [z3.If(A.live(i), z3.ZeroExt(8, A.data[i]), z3.BitVecVal(256 + i, 16)) for i in range(N)]
                distinct = z3.Distinct(*livedata) if N > 1 else T_
                for i in range(N):
                    keep = z3.And(A.live(i), z3.Not(gone[i]))
                    ob.append(('C08.moved_away_node_survives_removal_of_old_parent[%d]' % (i + 1), z3.Implies(keep, z3.And(V2.live(i), V2.is_data[i], V2.data[i] == A.data[i]))))
                    ob.append(('C04.remove_subtree_after_move_removes_exactly_the_subtree[%d]' % (i + 1), z3.Implies(A.live(i), V2.live(i) == z3.Not(gone[i]))))
                    cnt = sum([z3.If(z3.And(zbool(c), e == A.data[i]), 1, 0) for (c, e) in o2.state.drops], z3.IntVal(0))
                    ob.append(('C08.dropped_iff_removed_after_move[%d]' % (i + 1), z3.Implies(z3.And(distinct, A.live(i)), cnt == z3.If(gone[i], 1, 0))))
                res['nontrivial'] += 1
            check_obligations(eng, list(o2.state.pc), ob, prefixes, res, mv)
    if eng.solver.check() == z3.sat:
        m = eng.solver.model()
        res['samples'].append({'harness': '%s then remove_subtree of the former parent' % op1, 'N': N, 'args': ctx.args_dict(m), 'pre': A.model_dict(m)})
    res['feas_queries'] = eng.nq; res['solver_time'] += eng.tq
    res['wall'] = time.time() - t0
    return res


def confirm_move_then_remove(prop, v):
    import replay
    pre = v['pre']; a = v['args']; N = len(pre['slots'])
    # expected survivors: natively computed from the documented effect = run on the reference semantics is not available natively;
    # instead check the observable symptom directly: a node that is not a descendant of `old` after the move (by its own parent
    # chain as reported after the first call) must still be live and keep its payload after old.remove_subtree()
    detail = {}; status = 'not_reproduced'
    for profile in ('dev', 'release'):
        lines = replay.construct_script(pre)
        n0 = len(lines)
        lines += [replay.op_line(v['op'], a, pre), 'dump', 'remove_subtree s%d' % a['old'], 'dump', 'drops']
        res = replay.run_script(lines, profile)
        def dump_at(k):
            r = res.get(k)
            try: return replay.parse_dump(r[1]) if r and r[0] == 'OK' else None
            except ValueError: return None
        ok = bool(dump_at(n0 - 1)) and replay.same_state(dump_at(n0 - 1), pre)
        mid, fin = dump_at(n0 + 1), dump_at(n0 + 3)
        bad = []
        if res.get(n0 + 2, ('', ''))[0] != 'OK': bad.append('remove_subtree after the move: %s' % (res.get(n0 + 2),))
        if mid and fin:
            def under(i):
                c = i; k = 0
                while c is not None and k <= N:
                    if c == a['old']: return True
                    p = mid['slots'][c - 1]['parent']; c = p[0] if p else None; k += 1
                return False
            for i in range(1, N + 1):
                if mid['slots'][i - 1]['stamp'] >= 0 and not under(i):
                    if fin['slots'][i - 1]['stamp'] < 0 or fin['slots'][i - 1].get('data') != mid['slots'][i - 1].get('data'):
                        bad.append('node %d is not under node %d after the move (its parent chain says so) but was freed / lost its payload by remove_subtree(%d)' % (i, a['old'], a['old']))
        detail[profile] = {'pre_ok': ok, 'bad': bad[:6]}
        detail.setdefault('script', lines)
        if not ok:
            if status == 'not_reproduced': status = 'unreachable'
        elif bad: status = 'reproduced'
    return status, detail


# ---- C08 over three calls: remove_subtree(x); new_node(d); remove_subtree(y)

def run_rs_alloc_rs_job(prog, job):
    """x.remove_subtree(); z = new_node(d) (recycles a slot just freed); y.remove_subtree() for a node y that survived the first
    call: exactly subtree(x) and then subtree(y) lose their payloads (each once), every other node - in particular the new node z -
    stays live under its id with its payload (a link to a freed slot that the first call leaves behind leads the second removal
    into the recycled slot)."""
    import specs
    t0 = time.time()
    N = job['N']
    prefixes = tuple(p + '.' for p in job['props'])
    ctx = harness.Ctx(prog, 'remove_subtree', N, None, job.get('fix_x'))
    eng = ctx.eng; A = ctx.A; pre = ctx.pre
    res = new_result(job)
    x = ctx.x
    y = z3.BitVec('y2', 64); dnew = z3.BitVec('dnew', 8)
    memx = specs.subtree_member(pre, x)
    surv = [z3.And(A.live(i), z3.Not(memx[i])) for i in range(N)]
    undery = [z3.And(surv[i], is_ancestor_or_self(pre, y, BV64(i + 1))) for i in range(N)]
    eng.solver.add(ctx.x_live, z3.UGE(y, 1), z3.ULE(y, N), sel(surv, y))
    for i in range(N): eng.solver.add(z3.Implies(A.live(i), A.data[i] != dnew))
    if eng.solver.check() != z3.sat:
        res['vacuous'] = True; return res
    rsub = find_fn(prog, 'NodeId', 'remove_subtree'); new_node = find_fn(prog, 'Arena', 'new_node')
    aref = Ref(ctx.acell, ())
    id_y = mk_id(y, sel(A.stamp, y))
    def mv(m, failed):
        return {'kind': 'custom', 'module': 'multistep', 'confirm': 'confirm_rs_alloc_rs', 'checks': failed, 'op': 'remove_subtree', 'N': N, 'cfg': 'dev', 'role': 'remove_subtree_alloc_remove_subtree',
                'pre': A.model_dict(m), 'args': dict(ctx.args_dict(m), y=m.eval(y, model_completion=True).as_long(), dnew=m.eval(dnew, model_completion=True).as_long())}
    for o in ctx.explore():
        res['paths'] += 1; res['steps'] += o.state.steps
        if o.kind != 'return': continue                      # the single call is judged by the mutator jobs
        s1 = o.state.copy(); s1.model = None
        if not hasattr(s1, 'drops') or s1.drops is None: s1.drops = []
        for o2 in call_all(eng, s1, new_node, [aref, Opq(dnew)]):
            res['paths'] += 1; res['steps'] += o2.state.steps
            if o2.kind != 'return': continue
            zi, zs = zb(o2.value.f[0].f[0]), zb(o2.value.f[1].f[0])
            for o3 in call_all(eng, o2.state.copy(), rsub, [id_y, aref]):
                res['paths'] += 1; res['steps'] += o3.state.steps
                if o3.kind != 'return':
                    ob = [('%s.third_call_completes' % p_, F_) for p_ in job['props']]
                else:
                    V3 = View(o3.state.store[ctx.acell])
                    ob = []
                    livedata = [z3.If(A.live(i), z3.ZeroExt(8, A.data[i]), z3.BitVecVal(256 + i, 16)) for i in range(N)]
                    distinct = z3.Distinct(*livedata) if N > 1 else T_
                    for i in range(N):
                        keep = z3.And(surv[i], z3.Not(undery[i]))
                        ob.append(('C08.bystander_survives_two_subtree_removals[%d]' % (i + 1), z3.Implies(keep, z3.And(V3.live(i), V3.is_data[i], V3.data[i] == A.data[i], V3.stamp[i] == A.stamp[i]))))
                        cnt = sum([z3.If(z3.And(zbool(c), e == A.data[i]), 1, 0) for (c, e) in o3.state.drops], z3.IntVal(0))
                        ob.append(('C08.dropped_once_iff_in_a_removed_subtree[%d]' % (i + 1), z3.Implies(z3.And(distinct, A.live(i)), cnt == z3.If(z3.Or(memx[i], undery[i]), 1, 0))))
                    zl = sel([V3.live(i) for i in range(V3.N)], zi); zd = sel([z3.And(V3.is_data[i], V3.data[i] == dnew) for i in range(V3.N)], zi)
                    zst = sel(V3.stamp, zi)
                    ob.append(('C08.recycled_node_survives_removal_of_another_subtree', z3.And(z3.UGE(zi, 1), z3.ULE(zi, V3.N), zl, zd, zst == zs)))
                    cntz = sum([z3.If(z3.And(zbool(c), e == dnew), 1, 0) for (c, e) in o3.state.drops], z3.IntVal(0))
                    ob.append(('C08.payload_of_live_new_node_not_dropped', cntz == 0))
                    res['nontrivial'] += 1
                check_obligations(eng, list(o3.state.pc), ob, prefixes, res, mv)
    if eng.solver.check() == z3.sat:
        m = eng.solver.model()
        res['samples'].append({'harness': 'remove_subtree(x); new_node(d); remove_subtree(y)', 'N': N, 'args': dict(ctx.args_dict(m), y=m.eval(y, model_completion=True).as_long()), 'pre': A.model_dict(m)})
    res['feas_queries'] = eng.nq; res['solver_time'] += eng.tq
    res['wall'] = time.time() - t0
    return res


def confirm_rs_alloc_rs(prop, v):
    import replay, json
    pre = v['pre']; a = v['args']; N = len(pre['slots'])
    slots = pre['slots']
    def under(i, root):
        c = i; k = 0
        while c is not None and k <= N:
            if c == root: return True
            p = slots[c - 1]['parent']; c = p[0] if p else None; k += 1
        return False
    live = [i for i in range(1, N + 1) if slots[i - 1]['stamp'] >= 0]
    gone = [i for i in live if under(i, a['x']) or under(i, a['y'])]
    expected = sorted(slots[i - 1]['data'] for i in gone)
    detail = {}; status = 'not_reproduced'
    for profile in ('dev', 'release'):
        lines = replay.construct_script(pre)
        n0 = len(lines)
        lines += ['remove_subtree s%d' % a['x'], 'new rnew %d' % a['dnew'], 'remove_subtree s%d' % a['y'], 'is_removed rnew', 'dump', 'drops']
        res = replay.run_script(lines, profile)
        r0 = res.get(n0 - 1)
        try: got = replay.parse_dump(r0[1]) if r0 and r0[0] == 'OK' else None
        except ValueError: got = None
        ok = bool(got) and replay.same_state(got, pre)
        bad = []
        for k in (n0, n0 + 1, n0 + 2):
            if res.get(k, ('MISSING', ''))[0] != 'OK': bad.append('%s: %s' % (lines[k], res.get(k)))
        if not bad:
            if res.get(n0 + 3, ('', ''))[1].strip() != 'false': bad.append('the node created between the two removals reports is_removed = %s' % (res.get(n0 + 3),))
            try: dr = sorted(json.loads(res[n0 + 5][1]))
            except Exception: dr = None
            if dr != expected: bad.append('payloads dropped %s, expected exactly %s' % (dr, expected))
        detail[profile] = {'pre_ok': ok, 'bad': bad[:6]}
        detail.setdefault('script', lines)
        if not ok:
            if status == 'not_reproduced': status = 'unreachable'
        elif bad: status = 'reproduced'
    return status, detail
