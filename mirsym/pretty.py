"""C14: debug_pretty_print. The real IndentWriter / open_item / close_item / write_str / prepare_next_node_printing MIR is run
from a symbolic INV forest, symbolic start node, symbolic choice of payload renderings and the `alternate` flag. Along a
path the emitted text is concrete; it is compared with a reference renderer on every projection of the path condition
onto the printed subtree (blocking-clause enumeration until unsat)."""
import time
import z3
from engine import *
from symarena import *
import harness, fmtmodel
from iters import new_result

T_, F_ = z3.BoolVal(True), z3.BoolVal(False)

# payload renderings: (text, chunks as delivered to write_str). Non-empty, no trailing newline (the property's precondition).
RENDERINGS = [
    ('a', ['a']),
    ('a\nb', ['a\nb']),
    ('a\n\nb', ['a\n\nb']),
    ('a\nb', ['a', '\nb']),
    ('a\n\nb', ['a\n', '\n', 'b']),
    ('xy', ['x', '', 'y']),
    ('a\r\nb', ['a\r\nb']),
    ('x\ny', ['x', ('c', '\n'), 'y']),          # the line break arrives through fmt::Write::write_char
]


def enc_piece(c):
    """script encoding of a rendering piece: text chunk, or `|c|X` for a single char handed to write_char"""
    if isinstance(c, (list, tuple)): return '|c|' + c[1].replace('\n', '\\n').replace('\r', '\\r')
    return c.replace('\n', '\\n').replace('\r', '\\r')


def reference(shape, texts, x):
    """shape: dict node -> list of children (in order); texts: node -> rendering; returns the documented drawing of subtree(x)"""
    lines = texts[x].split('\n')
    def rec(n, guides):
        out = []
        kids = shape.get(n, [])
        for k, c in enumerate(kids):
            last = (k == len(kids) - 1)
            tl = texts[c].split('\n')
            out.append(guides + ('`-- ' if last else '|-- ') + tl[0])
            cont = guides + ('    ' if last else '|   ')
            for l in tl[1:]: out.append(cont + l)
            out += rec(c, cont)
        return out
    return '\n'.join(lines + rec(x, ''))


def explore_pretty(prog, job):
    """symbolic forest, start node, rendering choice, alternate flag; runs <DebugPrettyPrint as trait>::fmt on every path"""
    N, trait = job['N'], job['trait']
    RS = [RENDERINGS[i] for i in job.get('rset', range(len(RENDERINGS)))]
    nr = len(RS)
    fmtmodel.install()
    eng = Engine(prog, max_steps=400000)
    A = SymArena(N)
    A.data = [BV8(i) for i in range(N)]            # payload identity = slot number: selects the rendering
    for c in A.inv(): eng.solver.add(c)
    rsel = [z3.BitVec('rsel%d' % i, 8) for i in range(N)]
    for r in rsel: eng.solver.add(z3.ULT(r, nr))
    fmtmodel.RENDER_TABLE[:] = [ch for (_, ch) in RS]
    eng.render_choice = lambda p: sel(rsel, z3.ZeroExt(56, p) + 1)
    x = z3.BitVec('x', 64) if job.get('fix_x') is None else BV64(job['fix_x'])
    live = [A.live(i) for i in range(N)]
    eng.solver.add(z3.UGE(x, 1), z3.ULE(x, N), sel(live, x))
    if job.get('family') == 'tree':
        # one tree filling the arena, numbered in depth-first pre-order (one labelling per shape; the printer follows links only)
        for i in range(N):
            me = i + 1
            eng.solver.add(A.stamp[i] == 0)
            if i == 0:
                eng.solver.add(z3.Not(A.some['parent'][0]), z3.Not(A.some['prev'][0]), z3.Not(A.some['next'][0]))
            else:
                eng.solver.add(A.some['parent'][i], z3.ULT(A.idx['parent'][i], me))
                eng.solver.add(z3.Implies(A.some['prev'][i], z3.ULT(A.idx['prev'][i], me)))
                eng.solver.add(z3.Implies(z3.Not(A.some['prev'][i]), A.idx['parent'][i] == me - 1))
                # pre-order numbering: the parent of slot me lies on the path from slot me-1 to the root
                eng.solver.add(is_ancestor_or_self(View(A.value()), A.idx['parent'][i], BV64(me - 1)))
        for k_, v_ in (job.get('fix_parent') or {}).items():
            eng.solver.add(A.idx['parent'][int(k_) - 1] == int(v_))
    alt = z3.Bool('alternate')
    if job.get('alt') is not None: eng.solver.add(alt == bool(job['alt']))
    if eng.solver.check() != z3.sat: return None
    st = State(); acell = st.new_cell(A.value())
    idcell = st.new_cell(A.id_of(x))
    dpp = st.new_cell(Agg('DebugPrettyPrint', (Ref(idcell, ()), Ref(acell, ()))))
    fcell = st.new_cell(Agg('Formatter', (S(alt, 'bool'),)))
    f = [g for (t, g) in prog.methods.get(('DebugPrettyPrint', 'fmt'), []) if t == trait]
    if not f: raise Unsupported('no <DebugPrettyPrint as %s>::fmt' % trait)
    eng.push_call(st, f[0], [Ref(dpp, ()), Ref(fcell, ())], None, None)
    outs = eng.run(st)
    return eng, A, x, alt, rsel, RS, outs


def run_pretty_job(prog, job):
    t0 = time.time()
    N, trait = job['N'], job['trait']
    prefixes = tuple(p + '.' for p in job['props'])
    res = new_result(job)
    ex = explore_pretty(prog, job)
    if ex is None:
        res['vacuous'] = True; return res
    eng, A, x, alt, rsel, RS, outs = ex
    nr = len(RS)
    sv = eng.solver
    pre = View(A.value())
    res['paths'] = len(outs)
    cov = {'depth2': False, 'multiline_payload': False, 'empty_interior_line': False, 'chunked_write': False, 'x_has_siblings': False,
           'x_not_root': False, 'last_and_nonlast_children': False, 'multiline_nonlast_with_children': False}
    want_kind = 'display' if trait == 'Display' else 'debug'
    MAXPROJ = 400

    def mkviol(m, failed, got=None, exp=None):
        return {'kind': 'custom', 'module': 'pretty', 'confirm': 'confirm', 'checks': failed, 'op': 'pretty_' + trait.lower(), 'N': N, 'cfg': job['cfg'],
                'pre': A.model_dict(m), 'role': 'pretty', 'got': got, 'expected': exp,
                'args': {'x': m.eval(x, model_completion=True).as_long(), 'alt': z3.is_true(m.eval(alt, model_completion=True)), 'trait': trait,
                         'texts': [RS[m.eval(r, model_completion=True).as_long()][0] for r in rsel],
                         'chunks': [RS[m.eval(r, model_completion=True).as_long()][1] for r in rsel]}}

    for o in outs:
        res['steps'] += o.state.steps
        pc = list(o.state.pc)
        key = o.kind + (':' + (o.msg or '')[:50] if o.kind != 'return' else '')
        res['outcomes'][key] = res['outcomes'].get(key, 0) + 1
        if o.kind != 'return' or (isinstance(o.value, En) and o.value.d.conc() and o.value.d.v != 0):
            res['obligations'] += 1
            if 'C14.' in prefixes:
                r = eng.check(list(pc))
                if r == z3.sat: res['violations'].append(mkviol(sv.model(), ['C14.no_panic_no_error'], got=key))
            continue
        text = ''.join(getattr(o.state, 'out', ()))
        modes = getattr(o.state, 'modes', ())
        # every payload was asked for the right mode
        res['obligations'] += 1; res['assert_queries'] += 1
        badmode = z3.Or(*[z3.BoolVal(k != want_kind) if True else F_ for (k, a) in modes] + [z3.BoolVal(False)])
        altbad = [a for (k, a) in modes]
        mode_ok = z3.And(z3.Not(badmode), *[(alt == z3.BoolVal(a)) for a in altbad])
        r = eng.check(pc + [z3.Not(mode_ok)])
        if r == z3.sat: res['violations'].append(mkviol(sv.model(), ['C14.payload_mode_passed_through'], got=str(modes)))
        elif r == z3.unsat: res['discharged'] += 1
        for (ck, cf) in (('x_has_siblings', z3.Or(sel(pre.some['next'], x), sel(pre.some['prev'], x))), ('x_not_root', sel(pre.some['parent'], x))):
            if not cov[ck] and eng.check(pc + [cf]) == z3.sat: cov[ck] = True
        # all projections of the path condition on the printed subtree
        blocks = []
        nproj = 0
        while True:
            t1 = time.time(); r = eng.check(pc + blocks); res['solver_time'] += time.time() - t1
            res['assert_queries'] += 1
            if r == z3.unknown: res['unknown'] = 'projection query unknown'; break
            if r == z3.unsat:
                if res.get('export_smt2', 0) > len(res['smt2']) and blocks:
                    res['smt2'].append(harness.export_smt2(sv, pc + blocks, 'unsat'))
                break
            m = sv.model()
            nproj += 1
            if nproj > MAXPROJ: res['unknown'] = 'more than %d projections on one path' % MAXPROJ; break
            ev = lambda e: m.eval(e, model_completion=True)
            xv = ev(x).as_long()
            shape = {}; texts = {}; members = []
            stack = [xv]; guard = 0
            while stack and guard < 4 * N + 4:
                n = stack.pop(); guard += 1
                members.append(n)
                texts[n] = RS[ev(rsel[n - 1]).as_long()][0]
                kids = []
                if z3.is_true(ev(pre.some['first'][n - 1])):
                    c = ev(pre.idx['first'][n - 1]).as_long()
                    while c is not None and len(kids) <= N:
                        kids.append(c)
                        c = ev(pre.idx['next'][c - 1]).as_long() if z3.is_true(ev(pre.some['next'][c - 1])) else None
                shape[n] = kids
                stack += kids
            exp = reference(shape, texts, xv)
            res['obligations'] += 1
            if exp == text:
                res['discharged'] += 1
                if len(members) >= 2: res['nontrivial'] += 1
            else:
                res['violations'].append(mkviol(m, ['C14.drawing_matches_reference'], got=text, exp=exp))
                if len([v for v in res['violations']]) > 6: break
            # coverage
            depth2 = any(shape.get(c) for c in shape.get(xv, []))
            cov['depth2'] |= depth2
            cov['multiline_payload'] |= any('\n' in t for t in texts.values())
            cov['empty_interior_line'] |= any('\n\n' in t for t in texts.values())
            cov['chunked_write'] |= any(len(RS[ev(rsel[n - 1]).as_long()][1]) > 1 for n in members)
            cov['last_and_nonlast_children'] |= any(len(k) >= 2 for k in shape.values())
            cov['multiline_nonlast_with_children'] |= any(len(k) >= 2 and '\n' in texts[k[0]] and shape.get(k[0]) for k in shape.values())
            if len(res['samples']) < 2 and len(members) >= 2:
                res['samples'].append({'trait': trait, 'alternate': z3.is_true(ev(alt)), 'start': xv, 'children': {str(k): v for k, v in shape.items()},
                                       'renderings': {str(k): v for k, v in texts.items()}, 'printed': text})
            # block this projection: start node, links and renderings of the printed nodes
            cl = [x == xv]
            for n in members:
                i = n - 1
                cl.append(rsel[i] == ev(rsel[i]))
                for L in ('first', 'next'):
                    sm = z3.is_true(ev(pre.some[L][i]))
                    if L == 'next' and n == xv: continue
                    cl.append(pre.some[L][i] == z3.BoolVal(sm))
                    if sm: cl.append(pre.idx[L][i] == ev(pre.idx[L][i]))
            blocks.append(z3.Not(z3.And(*cl)))
    gate = {'depth2': 3, 'last_and_nonlast_children': 3, 'multiline_nonlast_with_children': 4, 'x_has_siblings': 2, 'x_not_root': 2}
    have = {'multiline_payload': any('\n' in t for (t, _) in RS), 'empty_interior_line': any('\n\n' in t for (t, _) in RS),
            'chunked_write': any(len(c) > 1 for (_, c) in RS), 'multiline_nonlast_with_children': any('\n' in t for (t, _) in RS)}
    res['coverage'] = {k: v for k, v in cov.items() if N >= gate.get(k, 1) and have.get(k, True) and job.get('fix_x') is None}
    res['feas_queries'] = eng.nq; res['solver_time'] += eng.tq
    res['wall'] = time.time() - t0
    return res


def confirm(prop, v):
    import replay, ast
    pre = v['pre']; a = v['args']
    detail = {}; status = 'not_reproduced'
    N = len(pre['slots'])
    # the model's payload identities are the slot numbers
    for i, s in enumerate(pre['slots']):
        if s['stamp'] >= 0: s['data'] = i
    shape = {}; texts = {}
    def kids(n):
        out = []; c = pre['slots'][n - 1]['first']
        c = c[0] if c else None
        while c is not None and len(out) <= N:
            out.append(c); nx = pre['slots'][c - 1]['next']; c = nx[0] if nx else None
        return out
    stack = [a['x']]
    while stack:
        n = stack.pop(); shape[n] = kids(n); texts[n] = a['texts'][n - 1]; stack += shape[n]
    # the native payload type prefixes its rendering with a marker of the mode it is asked for (`?` Debug, `#` alternate)
    marker = ('?' if a['trait'] != 'Display' else '') + ('#' if a['alt'] else '')
    texts = {n: marker + t for n, t in texts.items()}
    exp = reference(shape, texts, a['x'])
    mode = ('display' if a['trait'] == 'Display' else 'debug') + ('_alt' if a['alt'] else '')
    for profile in ('dev', 'release'):
        lines = replay.construct_script(pre)
        n0 = len(lines)
        for n, t in texts.items():
            chunks = a.get('chunks', [[x] for x in a['texts']])[n - 1]
            lines.append('render %d %s' % (n - 1, '|~|'.join(enc_piece(c) for c in chunks)))
        lines.append('pretty %s s%d' % (mode, a['x']))
        res = replay.run_script(lines, profile)
        d = res.get(n0 - 1)
        try: got = replay.parse_dump(d[1]) if d and d[0] == 'OK' else None
        except ValueError: got = None
        ok = bool(got) and replay.same_state(got, pre)
        r = res.get(len(lines) - 1, ('MISSING', ''))
        try: observed = ast.literal_eval(r[1]) if r[0] == 'OK' else None
        except Exception: observed = r[1]
        detail[profile] = {'pre_ok': ok, 'status': r[0], 'observed': observed, 'expected': exp}
        detail.setdefault('script', lines)
        if not ok:
            if status == 'not_reproduced': status = 'unreachable'
        elif r[0] != 'OK' or observed != exp: status = 'reproduced'
    return status, detail
