"""Regenerate MIR text from /repo's current working tree (and from /verif/shims) with the pinned nightly."""
import os, subprocess, shutil, tempfile, hashlib, re

REPO = os.environ.get('VERIF_REPO', '/repo')
VERIF = os.path.dirname(os.path.dirname(os.path.abspath(__file__)))
CRATE = os.path.join(REPO, 'indextree')
SHIMS = os.path.join(VERIF, 'shims')
NIGHTLY = os.environ.get('VERIF_NIGHTLY', 'nightly')

CONFIGS = {
    'dev': ['-C', 'debug-assertions=on', '-C', 'overflow-checks=on'],
    'release': ['-C', 'debug-assertions=off', '-C', 'overflow-checks=off'],
}
FEATURES = {
    'std': ['--no-default-features', '--features', 'std'],
    'nostd': ['--no-default-features'],
    'all': ['--no-default-features', '--features', 'std,macros,par_iter,deser'],
}


def scratch_root():
    base = os.environ.get('VERIF_SCRATCH') or '/var/tmp'
    return tempfile.mkdtemp(prefix='mirsym-', dir=base)


def _dump(crate_dir, target_dir, extra_cargo, rustc_flags):
    env = dict(os.environ)
    env['CARGO_TARGET_DIR'] = target_dir
    env['CARGO_NET_OFFLINE'] = 'true'
    env.pop('RUSTFLAGS', None)
    cmd = ['cargo', '+' + NIGHTLY, 'rustc', '--offline', '--lib'] + extra_cargo + ['--', '-Zunpretty=mir'] + rustc_flags
    p = subprocess.run(cmd, cwd=crate_dir, env=env, stdout=subprocess.PIPE, stderr=subprocess.PIPE, text=True)
    if p.returncode != 0 or 'fn ' not in p.stdout:
        raise RuntimeError('MIR dump failed (%s):\n%s' % (' '.join(cmd), p.stderr[-3000:]))
    return p.stdout


def dump_repo(scratch, cfg='dev', feat='std'):
    td = os.path.join(scratch, 'target-%s-%s' % (cfg, feat))
    try:
        return _dump(CRATE, td, FEATURES[feat], CONFIGS[cfg])
    finally:
        shutil.rmtree(td, ignore_errors=True)


def dump_shims(scratch):
    td = os.path.join(scratch, 'target-shims')
    try:
        return _dump(SHIMS, td, [], CONFIGS['dev'])
    finally:
        shutil.rmtree(td, ignore_errors=True)


def fn_hashes(mir_text):
    """name -> sha1 of body text, for the evidence ('functions encoded')"""
    out = {}
    for m in re.finditer(r'^fn (.*?)\((?:.|\n)*?^\}', mir_text, re.M):
        out[m.group(1)] = hashlib.sha1(m.group(0).encode()).hexdigest()[:12]
    return out
