"""Prototype symbolic executor for rustc MIR text (subset used by indextree)."""
import re, sys, time, itertools
import z3
from mirparse import parse_mir, strip_generics, type_head, Place, Operand, Rvalue, Func, split_top

BITS = {'u8': 8, 'i8': 8, 'u16': 16, 'i16': 16, 'u32': 32, 'i32': 32, 'u64': 64, 'i64': 64, 'usize': 64, 'isize': 64, 'char': 32}
SIGNED = {'i8', 'i16', 'i32', 'i64', 'isize'}

class Unsupported(Exception):
    pass

class AbsentVariant(Unsupported):
    pass

# ---------------- values ----------------
class S:
    """scalar: v is python int/bool or z3 expr; ty is 'bool' or int type name"""
    __slots__ = ('v', 'ty')
    def __init__(self, v, ty):
        self.v = v; self.ty = ty
    def __repr__(self): return 'S(%s:%s)' % (self.v, self.ty)
    def conc(self): return isinstance(self.v, (int, bool))

class Agg:
    __slots__ = ('ty', 'f')
    def __init__(self, ty, f): self.ty = ty; self.f = tuple(f)
    def __repr__(self): return '%s%s' % (self.ty, list(self.f))

class En:
    """enum: d discriminant (S), pay: dict variant idx -> tuple of fields"""
    __slots__ = ('ty', 'd', 'pay')
    def __init__(self, ty, d, pay): self.ty = ty; self.d = d; self.pay = pay
    def __repr__(self): return 'En<%s>(%s,%s)' % (self.ty, self.d, self.pay)

class VecV:
    """pos: None, or the (symbolic, pairwise different) 0-based positions of the modelled elements inside a longer vector
    whose other elements are not modelled (embedded mode: an access that can hit an unmodelled position is reported)"""
    __slots__ = ('len', 'cap', 'el', 'pos')
    def __init__(self, ln, cap, el, pos=None): self.len = ln; self.cap = cap; self.el = tuple(el); self.pos = pos
    def __repr__(self): return 'Vec(len=%s,%s)' % (self.len, list(self.el))

class Ref:
    __slots__ = ('cell', 'path')
    def __init__(self, cell, path): self.cell = cell; self.path = tuple(path)
    def __repr__(self): return 'Ref(%s,%s)' % (self.cell, self.path)

class SubRef(Ref):
    """reference to the sub-slice [off, off+len) of the vector / slice at (cell, path)"""
    __slots__ = ('off', 'len')
    def __init__(self, cell, path, off, ln): Ref.__init__(self, cell, path); self.off = off; self.len = ln
    def __repr__(self): return 'SubRef(%s,%s,%r,%r)' % (self.cell, self.path, self.off, self.len)

class FnV:
    __slots__ = ('kind', 'name', 'env')
    def __init__(self, kind, name, env=None): self.kind = kind; self.name = name; self.env = env
    def __repr__(self): return 'FnV(%s,%s)' % (self.kind, self.name)

class StrV:
    __slots__ = ('s',)
    def __init__(self, s): self.s = s
    def __repr__(self): return 'Str(%r)' % self.s

class Opq:
    """opaque payload (type parameter T) identified by a z3 expr"""
    __slots__ = ('e',)
    def __init__(self, e): self.e = e
    def __repr__(self): return 'Opq(%s)' % self.e

UNIT = Agg('()', ())
class _Uninit:
    def __repr__(self): return 'UNINIT'
UNINIT = _Uninit()

ENUMS = {
    'Option': ['None', 'Some'], 'Result': ['Ok', 'Err'], 'ControlFlow': ['Continue', 'Break'],
    'AssertKind': ['Eq', 'Ne', 'Match'],
}

def bv(v, ty):
    if isinstance(v, bool): return z3.BoolVal(v)
    if isinstance(v, int): return z3.BitVecVal(v, BITS[ty])
    return v

def wrap(v, ty):
    b = BITS[ty]
    v &= (1 << b) - 1
    if ty in SIGNED and v >= (1 << (b - 1)): v -= (1 << b)
    return v

def zbool(x):
    if isinstance(x, bool): return z3.BoolVal(x)
    return x

def s_ite(c, a, b):
    """c: python bool or z3 bool; a,b raw scalar v's of same ty"""
    if isinstance(c, bool): return a if c else b
    if isinstance(a, (int, bool)) and isinstance(b, (int, bool)) and a == b and type(a) == type(b): return a
    return None

def merge(c, a, b):
    """value if c then a else b ; c z3 Bool or python bool"""
    if isinstance(c, bool): return a if c else b
    if a is b: return a
    if a is UNINIT: return b
    if b is UNINIT: return a
    if isinstance(a, S):
        assert isinstance(b, S), (a, b)
        if a.conc() and b.conc() and a.v == b.v: return a
        ty = a.ty
        if ty == 'bool':
            return S(z3.If(c, zbool(a.v), zbool(b.v)), ty)
        return S(z3.If(c, bv(a.v, ty), bv(b.v, ty)), ty)
    if isinstance(a, Agg):
        assert isinstance(b, Agg) and len(a.f) == len(b.f), (a, b)
        return Agg(a.ty, [merge(c, x, y) for x, y in zip(a.f, b.f)])
    if isinstance(a, En):
        assert isinstance(b, En), (a, b)
        pay = {}
        for k in set(a.pay) | set(b.pay):
            if k in a.pay and k in b.pay:
                pay[k] = tuple(merge(c, x, y) for x, y in zip(a.pay[k], b.pay[k]))
            else:
                pay[k] = a.pay.get(k, b.pay.get(k))
        return En(a.ty, merge(c, a.d, b.d), pay)
    if isinstance(a, VecV):
        return VecV(merge(c, a.len, b.len), a.cap, [merge(c, x, y) for x, y in zip(a.el, b.el)])
    if isinstance(a, Opq):
        return Opq(z3.If(c, a.e, b.e))
    if isinstance(a, Ref):
        if isinstance(b, Ref) and a.cell == b.cell and len(a.path) == len(b.path):
            path = []
            for x, y in zip(a.path, b.path):
                if x[0] == 'i' and y[0] == 'i':
                    path.append(('i', merge(c, x[1], y[1])))
                elif x == y: path.append(x)
                else: raise Unsupported('merge refs')
            return Ref(a.cell, path)
        raise Unsupported('merge of distinct references')
    if isinstance(a, (StrV, FnV)):
        return a
    raise Unsupported('merge %r %r' % (a, b))

def split_qualified(c):
    """'<A as B>::m' -> (A, B, m) with balanced angle brackets"""
    if not c.startswith('<'): return None
    d = 0; i = 0
    while i < len(c):
        ch = c[i]
        if ch == '<': d += 1
        elif ch == '>' and c[i-1] != '-':
            d -= 1
            if d == 0: break
        i += 1
    inner = c[1:i]; rest = c[i+1:]
    if not rest.startswith('::'): return None
    # top-level ' as '
    d = 0; k = -1
    for j in range(len(inner)):
        ch = inner[j]
        if ch in '<([': d += 1
        elif ch in ')]' or (ch == '>' and inner[j-1] != '-'): d -= 1
        elif d == 0 and inner.startswith(' as ', j): k = j; break
    if k < 0: return None
    meth = rest[2:]
    if '::' in meth: return None
    return inner[:k], inner[k+4:], meth

# ---------------- program ----------------
REPR = {'nf_nonzero': False, 'free_ends_nonzero': False}


def scan_enums(src_root):
    import glob, os
    for p in glob.glob(os.path.join(src_root, '**', '*.rs'), recursive=True):
        txt = open(p).read()
        # representation details the symbolic-state constructor has to follow (field types of the arena's own data)
        m_ = re.search(r'\bNextFree\(\s*([^)]*)\)\s*,', txt)
        if m_ and 'enum NodeData' in txt: REPR['nf_nonzero'] = 'NonZero' in m_.group(1)
        m_ = re.search(r'first_free_slot:\s*([^,\n]*),', txt)
        if m_ and 'struct Arena' in txt: REPR['free_ends_nonzero'] = 'NonZero' in m_.group(1)
        for m in re.finditer(r'\benum\s+([A-Za-z_0-9]+)\s*(<[^>]*>)?\s*\{(.*?)\n\}', txt, re.S):
            body = re.sub(r'//[^\n]*', '', m.group(3))
            body = re.sub(r'#\[[^\]]*\]', '', body)
            vs = []
            for part in split_top(body):
                mm = re.match(r'\s*([A-Za-z_0-9]+)', part)
                if mm: vs.append(mm.group(1))
            ENUMS[m.group(1)] = vs

class Program:
    def __init__(self, mir_texts, src_root=None):
        self.funcs = []
        self.root_of = {}
        for (t, root) in mir_texts:
            if root: scan_enums(root)
            fs = parse_mir(t)
            for f in fs: self.root_of[id(f)] = root
            self.funcs += fs
        self.by_name = {}
        self.closures = {}
        self.methods = {}     # (selfhead, method) -> [Func]
        self.free = {}
        self.promoted = {}
        self.named_consts = {}
        self.src_root = src_root
        self._src = {}
        for f in self.funcs:
            self.by_name.setdefault(f.name, []).append(f)
            if f.is_const and '::promoted[' not in f.name:
                self.named_consts.setdefault(f.name.split('::')[-1], []).append(f)
                continue
            if f.is_const:
                m = re.search(r'([A-Za-z_0-9]+)::promoted\[(\d+)\]$', f.name)
                self.promoted.setdefault((m.group(1), int(m.group(2))), []).append(f)
                continue
            last = f.name.split('::')[-1]
            if last.startswith('{closure#'):
                self.closures[type_head(f.params[0][1])] = f
                continue
            if '<impl at ' in f.name:
                heads = set()
                if f.params: heads.add(type_head(f.params[0][1]))
                heads.add(type_head(f.ret))
                self.src_root = self.root_of[id(f)]
                trait = self.impl_trait(f.name)
                for h in heads:
                    self.methods.setdefault((h, last), []).append((trait, f))
            else:
                self.free[last] = f

    def src_line(self, file, line):
        file = (self.src_root or '') + '|' + file
        if file not in self._src:
            import os
            p = file.split('|', 1)[1]
            if self.src_root and not os.path.isabs(p): p = os.path.join(self.src_root, p)
            try: self._src[file] = open(p).read().split('\n')
            except Exception: self._src[file] = []
        ls = self._src[file]
        return ls[line - 1] if 0 < line <= len(ls) else ''

    def impl_trait(self, name):
        m = re.search(r'<impl at ([^:]+):(\d+):(\d+): (\d+):(\d+)>', name)
        if not m: return None
        file, l1, c1, l2, c2 = m.group(1), int(m.group(2)), int(m.group(3)), int(m.group(4)), int(m.group(5))
        text = self.src_line(file, l1)[c1 - 1:]
        if text.startswith('impl'):
            rest = text[4:]
            if rest.startswith('<'):
                d = 0
                for k, ch in enumerate(rest):
                    if ch == '<': d += 1
                    elif ch == '>' and rest[k-1] != '-':
                        d -= 1
                        if d == 0: break
                rest = rest[k+1:]
            mm = re.match(r'\s*(.*?)\s+for\s+', rest)
            if mm:
                return type_head(mm.group(1))
            return None
        mm = re.match(r'[A-Za-z_]+', text)
        return mm.group(0) if mm else None

# ---------------- state ----------------
class Frame:
    __slots__ = ('func', 'loc', 'bb', 'idx', 'dest', 'ret_bb')
    def __init__(self, func, loc, dest, ret_bb):
        self.func = func; self.loc = loc; self.bb = 0; self.idx = 0; self.dest = dest; self.ret_bb = ret_bb
    def copy(self):
        f = Frame(self.func, dict(self.loc), self.dest, self.ret_bb); f.bb = self.bb; f.idx = self.idx; return f

class State:
    def __init__(self):
        self.store = {}
        self.frames = []
        self.pc = []
        self.ncell = 0
        self.steps = 0
        self.drops = []     # (cond, payload expr)
        self.trace = []
        self.model = None
    def copy(self):
        s = State()
        s.store = dict(self.store); s.frames = [f.copy() for f in self.frames]; s.pc = list(self.pc)
        s.ncell = self.ncell; s.steps = self.steps; s.drops = list(self.drops); s.trace = list(self.trace)
        s.model = self.model
        s.out = getattr(self, 'out', ())
        return s
    def new_cell(self, v=UNINIT):
        c = self.ncell; self.ncell += 1; self.store[c] = v; return c

class Outcome:
    def __init__(self, kind, state, value=None, msg=''):
        self.kind = kind; self.state = state; self.value = value; self.msg = msg

# ---------------- engine ----------------
class Engine:
    _instances = []

    def __init__(self, prog, max_steps=20000, loop_bound=None):
        Engine._instances.append(self)
        self.prog = prog
        self.solver = z3.Solver()
        self.nq = 0
        self.tq = 0.0
        self.max_steps = max_steps
        self.base = []
        self.stat_paths = 0
        self.nhit = 0
        self.lastmodel = None
        self.called = set()          # MIR functions executed (crate and shim crate)
        self.modelled = set()        # external callees answered by a Python builtin

    # ---- solver
    def check(self, assumptions):
        """solver.check(*assumptions) through the C API: z3py's wrapper re-casts every assumption on every call, which
        dominated the run time with path conditions of ~150 conjuncts"""
        n = len(assumptions)
        arr = (z3.Ast * n)()
        for i, a in enumerate(assumptions):
            if isinstance(a, bool): a = z3.BoolVal(a)
            arr[i] = a.as_ast()
        sv = self.solver
        r = z3.Z3_solver_check_assumptions(sv.ctx.ref(), sv.solver, n, arr)
        return z3.CheckSatResult(r)

    def feasible(self, st, cond):
        if isinstance(cond, bool): return cond
        c = z3.simplify(cond)
        if z3.is_true(c): return True
        if z3.is_false(c): return False
        if st.model is not None:
            try:
                if z3.is_true(st.model.eval(c, model_completion=True)):
                    self.nhit += 1
                    return True
            except Exception:
                pass
        t = time.time()
        r = self.check(st.pc + [c])
        self.nq += 1; self.tq += time.time() - t
        if r == z3.unknown: raise Unsupported('solver unknown')
        if r == z3.sat and st.model is None:
            st.model = self.solver.model()
        if r == z3.sat:
            self.lastmodel = self.solver.model()
        return r == z3.sat

    def fix_model(self, st, c):
        m = st.model
        if isinstance(c, bool) or m is None: return m
        try:
            if z3.is_true(m.eval(c, model_completion=True)): return m
        except Exception:
            pass
        return None

    # ---- memory
    def get(self, v, path, st):
        for k, p in enumerate(path):
            if p[0] == 'f':
                if isinstance(v, tuple): v = v[p[1]]
                elif isinstance(v, Agg): v = v.f[p[1]]
                elif isinstance(v, Ref) :
                    raise Unsupported('field of ref')
                else: raise Unsupported('field of %r' % (v,))
            elif p[0] == 'v':
                assert isinstance(v, En), (v, path)
                idx = self.variant_index(v.ty, p[1])
                if idx not in v.pay:
                    raise AbsentVariant('downcast to absent variant %s of %r' % (p[1], v))
                v = v.pay[idx]
            elif p[0] == 'i':
                assert isinstance(v, VecV), v
                i = p[1]
                hv = None
                if v.pos is not None:
                    # embedded mode: a read outside the modelled component sees an arbitrary (unconstrained) element
                    if getattr(self, 'havoc_elem', None) is not None:
                        hk = ('c', i.v) if i.conc() else i.v.get_id()
                        cache = self.__dict__.setdefault('_havoc', {})
                        if hk not in cache: cache[hk] = self.havoc_elem(len(cache))
                        hv = cache[hk]
                    else: self.tracked_access(v, i, st)
                if i.conc() and v.pos is None:
                    v = v.el[i.v]
                else:
                    rest = path[k+1:]
                    acc = None
                    if hv is not None:
                        try: acc = self.get(hv, rest, st)
                        except AbsentVariant: acc = None
                    for j in range(len(v.el) - 1, -1, -1):
                        if v.el[j] is UNINIT: continue
                        try:
                            ej = self.get(v.el[j], rest, st)
                        except AbsentVariant:
                            continue
                        acc = ej if acc is None else merge(bv(i.v, 'usize') == (j if v.pos is None else v.pos[j]), ej, acc)
                    if acc is None: raise AbsentVariant('all elements absent')
                    return acc
            else:
                raise Unsupported('path elem %r' % (p,))
        return v

    def put(self, v, path, new, st):
        if not path: return new
        p = path[0]; rest = path[1:]
        if p[0] == 'f':
            if isinstance(v, tuple):
                l = list(v); l[p[1]] = self.put(l[p[1]], rest, new, st); return tuple(l)
            assert isinstance(v, Agg), (v, path)
            l = list(v.f); l[p[1]] = self.put(l[p[1]], rest, new, st); return Agg(v.ty, l)
        if p[0] == 'v':
            assert isinstance(v, En)
            idx = self.variant_index(v.ty, p[1])
            if idx not in v.pay: raise AbsentVariant('write through absent variant %s' % (p[1],))
            pay = dict(v.pay); pay[idx] = self.put(pay[idx], rest, new, st); return En(v.ty, v.d, pay)
        if p[0] == 'i':
            assert isinstance(v, VecV)
            i = p[1]
            l = list(v.el)
            if v.pos is not None: self.tracked_access(v, i, st)
            if i.conc() and v.pos is None:
                l[i.v] = self.put(l[i.v], rest, new, st)
            else:
                for j in range(len(l)):
                    if l[j] is UNINIT: continue
                    try:
                        l[j] = merge(bv(i.v, 'usize') == (j if v.pos is None else v.pos[j]), self.put(l[j], rest, new, st), l[j])
                    except AbsentVariant:
                        pass
            return VecV(v.len, v.cap, l, v.pos)
        raise Unsupported('put path %r' % (p,))

    def tracked_access(self, v, i, st):
        """embedded mode: the index must denote one of the modelled elements on the current path"""
        pc = list(st.pc) if st is not None and hasattr(st, 'pc') else []
        key = (i.v.get_id() if not i.conc() else ('c', i.v), hash(tuple(c.get_id() if hasattr(c, 'get_id') else c for c in pc)))
        seen = self.__dict__.setdefault('_tracked_ok', set())
        if key in seen: return
        t = bv(i.v, 'usize')
        if self.check(pc + [z3.And(*[t != p_ for p_ in v.pos])]) != z3.unsat:
            raise Unsupported('embedded arena: access to a position outside the modelled component')
        seen.add(key)

    def variant_index(self, ty, name):
        h = type_head(ty) if ty else None
        if h in ENUMS and name in ENUMS[h]: return ENUMS[h].index(name)
        cands = [(e, vs.index(name)) for e, vs in ENUMS.items() if name in vs]
        if len(cands) == 1: return cands[0][1]
        raise Unsupported('variant %s of %s' % (name, ty))

    def resolve(self, st, fr, place):
        cell = fr.loc[place.local]; path = ()
        off = None
        for p in place.proj:
            if p[0] == 'deref':
                r = self.get(st.store[cell], path, st)
                if not isinstance(r, Ref): raise Unsupported('deref of %r (%s)' % (r, place))
                cell, path = r.cell, r.path
                off = r if isinstance(r, SubRef) else None
                continue
            elif p[0] == 'field': path = path + (('f', p[1]),)
            elif p[0] == 'downcast': path = path + (('v', p[1]),)
            elif p[0] == 'index':
                iv = st.store[fr.loc[p[1]]]
                if off is not None: iv = self.binop('Add', iv, off.off)
                path = path + (('i', iv),)
            elif p[0] == 'constindex':
                iv = S(p[1], 'usize')
                if off is not None: iv = self.binop('Add', iv, off.off)
                path = path + (('i', iv),)
            off = None
        self._sub = off          # the place denotes a sub-slice as a whole
        return cell, path

    def read_place(self, st, fr, place):
        cell, path = self.resolve(st, fr, place)
        v = self.get(st.store[cell], path, st)
        if v is UNINIT: raise Unsupported('read of uninit %s in %s' % (place, fr.func.name))
        return v

    def write_place(self, st, fr, place, v):
        cell, path = self.resolve(st, fr, place)
        st.store[cell] = self.put(st.store[cell], path, v, st)

    def deref(self, st, r):
        return self.get(st.store[r.cell], r.path, st)

    def store_ref(self, st, r, v):
        st.store[r.cell] = self.put(st.store[r.cell], r.path, v, st)

    # ---- constants
    def const(self, st, fr, text, ty_hint=None):
        t = text.strip()
        if t == '()': return UNIT
        if t == 'true': return S(True, 'bool')
        if t == 'false': return S(False, 'bool')
        m = re.match(r'^(-?\d+)_([a-z0-9]+)$', t)
        if m: return S(int(m.group(1)), m.group(2))
        m = re.match(r'^(?:core::num::<impl )?([iu](8|16|32|64|size))>?::(MIN|MAX)$', t)
        if m:
            ty = m.group(1); b = BITS[ty]
            if ty in SIGNED: v = -(1 << (b - 1)) if m.group(3) == 'MIN' else (1 << (b - 1)) - 1
            else: v = 0 if m.group(3) == 'MIN' else (1 << b) - 1
            return S(v, ty)
            return S(v, ty)
        if t.endswith('SizedTypeProperties>::ALIGN'): return S(8, 'usize')     # only compared against the 4096-aligned model addresses
        if t.endswith('SizedTypeProperties>::SIZE'): return S(16, 'usize')     # only tested for being non-zero
        if t.startswith('"') or t.startswith('b"'): return StrV(t)
        if t.startswith("'"):
            import ast
            return S(ord(ast.literal_eval(t)), 'char')
        if t.startswith('ZeroSized: '):
            ty = t[len('ZeroSized: '):]
            if ty.startswith('{closure@'): return Agg(type_head(ty), ())
            return FnV('item', ty)
        if '::promoted[' in t:
            m = re.search(r'([A-Za-z_0-9]+)(::<[^>]*>)?::promoted\[(\d+)\]$', t)
            fs = self.prog.promoted[(m.group(1), int(m.group(3)))]
            return ('PROMOTED', fs[0])
        # path constant: unit variant / fn item
        sp = strip_generics(t)
        segs = sp.split('::')
        if len(segs) >= 2 and segs[-2] in ENUMS and segs[-1] in ENUMS[segs[-2]]:
            # could be unit variant or tuple-variant ctor as fn item
            return FnV('ctor', sp)
        if t.startswith('Result::<') or t.startswith('Option::<'):
            # e.g. Result::<Infallible, std::fmt::Error>::Err(std::fmt::Error)
            m = re.match(r'^(Result|Option)::<.*>::(Ok|Err|Some|None)(\((.*)\))?$', t)
            if m:
                idx = ENUMS[m.group(1)].index(m.group(2))
                pay = {idx: (Agg('const', ()),) if m.group(3) else ()}
                return En(m.group(1), S(idx, 'isize'), pay)
        if segs[-1] in self.prog.named_consts and segs[-1].isupper():
            return ('PROMOTED', self.prog.named_consts[segs[-1]][0])
        return FnV('item', sp)

    def operand(self, st, fr, op):
        if op.kind == 'const':
            v = self.const(st, fr, op.const)
            if isinstance(v, tuple) and v[0] == 'PROMOTED':
                return self.eval_promoted(st, v[1])
            return v
        return self.read_place(st, fr, op.place)

    def eval_promoted(self, st, f):
        # run the const body in a sub-engine on the same state (no forks expected)
        loc = {n: st.new_cell() for n in f.locals}
        loc.setdefault(0, st.new_cell())
        fr = Frame(f, loc, None, None)
        st.frames.append(fr)
        depth = len(st.frames)
        outs = self.run(st, stop_depth=depth - 1)
        assert len(outs) == 1 and outs[0].kind == 'return', 'promoted forked'
        return outs[0].value

    # ---- scalar ops
    def binop(self, op, a, b):
        assert isinstance(a, S) and isinstance(b, S), (op, a, b)
        ty = a.ty
        cmpops = {'Eq', 'Ne', 'Lt', 'Le', 'Gt', 'Ge'}
        if a.conc() and b.conc():
            x, y = a.v, b.v
            if op == 'Eq': return S(x == y, 'bool')
            if op == 'Ne': return S(x != y, 'bool')
            if op == 'Lt': return S(x < y, 'bool')
            if op == 'Le': return S(x <= y, 'bool')
            if op == 'Gt': return S(x > y, 'bool')
            if op == 'Ge': return S(x >= y, 'bool')
            if ty == 'bool':
                if op == 'BitAnd': return S(x and y, 'bool')
                if op == 'BitOr': return S(x or y, 'bool')
                if op == 'BitXor': return S(x != y, 'bool')
            r = {'Add': x + y, 'Sub': x - y, 'Mul': x * y, 'AddWithOverflow': x + y, 'SubWithOverflow': x - y,
                 'MulWithOverflow': x * y, 'BitAnd': x & y, 'BitOr': x | y, 'BitXor': x ^ y}.get(op)
            if op == 'Div': r = (abs(x) // abs(y)) * (1 if (x >= 0) == (y >= 0) else -1) if y else None
            if op == 'Rem': r = x - ((abs(x) // abs(y)) * (1 if (x >= 0) == (y >= 0) else -1)) * y if y else None
            if op in ('Shl', 'Shr') and 0 <= y < BITS.get(ty, 64):
                r = (x << y) if op == 'Shl' else (x >> y)           # x is the mathematical value of the type: >> is arithmetic for signed, logical for unsigned
            if r is None: raise Unsupported('binop ' + op)
            w = wrap(r, ty)
            if op.endswith('WithOverflow'):
                return Agg('(T, bool)', (S(w, ty), S(w != r, 'bool')))
            return S(w, ty)
        if ty == 'bool':
            x, y = zbool(a.v), zbool(b.v)
            r = {'Eq': x == y, 'Ne': x != y, 'BitAnd': z3.And(x, y), 'BitOr': z3.Or(x, y), 'BitXor': z3.Xor(x, y)}[op]
            return S(r, 'bool')
        x, y = bv(a.v, ty), bv(b.v, ty)
        sg = ty in SIGNED
        if op in cmpops:
            r = {'Eq': x == y, 'Ne': x != y,
                 'Lt': (x < y) if sg else z3.ULT(x, y), 'Le': (x <= y) if sg else z3.ULE(x, y),
                 'Gt': (x > y) if sg else z3.UGT(x, y), 'Ge': (x >= y) if sg else z3.UGE(x, y)}[op]
            return S(r, 'bool')
        if op in ('Add', 'Sub', 'Mul', 'BitAnd', 'BitOr', 'BitXor'):
            r = {'Add': x + y, 'Sub': x - y, 'Mul': x * y, 'BitAnd': x & y, 'BitOr': x | y, 'BitXor': x ^ y}[op]
            return S(r, ty)
        if op == 'Div':
            return S((x / y) if sg else z3.UDiv(x, y), ty)
        if op == 'AddWithOverflow':
            ov = z3.Not(z3.BVAddNoOverflow(x, y, sg)) if not sg else z3.Or(z3.Not(z3.BVAddNoOverflow(x, y, True)), z3.Not(z3.BVAddNoUnderflow(x, y)))
            return Agg('(T, bool)', (S(x + y, ty), S(ov, 'bool')))
        if op == 'SubWithOverflow':
            ov = z3.Not(z3.BVSubNoUnderflow(x, y, sg)) if not sg else z3.Or(z3.Not(z3.BVSubNoOverflow(x, y)), z3.Not(z3.BVSubNoUnderflow(x, y, True)))
            return Agg('(T, bool)', (S(x - y, ty), S(ov, 'bool')))
        if op == 'MulWithOverflow':
            b2 = BITS[ty]
            if sg: wide = z3.SignExt(b2, x) * z3.SignExt(b2, y); ov = wide != z3.SignExt(b2, x * y)
            else: wide = z3.ZeroExt(b2, x) * z3.ZeroExt(b2, y); ov = wide != z3.ZeroExt(b2, x * y)
            return Agg('(T, bool)', (S(x * y, ty), S(ov, 'bool')))
        if op == 'Rem':
            return S(z3.SRem(x, y) if sg else z3.URem(x, y), ty)
        if op in ('Shl', 'Shr'):
            yy = y if y.size() == x.size() else (z3.ZeroExt(x.size() - y.size(), y) if y.size() < x.size() else z3.Extract(x.size() - 1, 0, y))
            return S(x << yy if op == 'Shl' else ((x >> yy) if sg else z3.LShR(x, yy)), ty)
        raise Unsupported('binop ' + op)

    def unop(self, op, a, st=None):
        if op == 'PtrMetadata':
            if isinstance(a, SubRef): return a.len
            v = self.deref(st, a)
            return v.len
        if op == 'Not':
            if a.ty == 'bool':
                return S((not a.v) if a.conc() else z3.Not(a.v), 'bool')
            return S(wrap(~a.v, a.ty) if a.conc() else ~a.v, a.ty)
        if op == 'Neg':
            return S(wrap(-a.v, a.ty) if a.conc() else -a.v, a.ty)
        raise Unsupported('unop ' + op)

    def cast(self, v, ty, kind):
        ty = ty.strip()
        if kind.startswith('PointerCoercion'):
            if isinstance(v, Agg) and v.ty.startswith('{closure@'):
                return FnV('closure', v.ty, v)
            return v
        if kind.startswith('Transmute'):
            w = v
            while isinstance(w, Agg) and len(w.f) == 1 and w.ty in ('NonNull', 'Unique', 'Box'): w = w.f[0]
            if isinstance(w, Ref):
                if ty.startswith('*') or ty.startswith('&'): return w
                if ty == 'usize': return S(self.addr_of(self.cur_state, w), 'usize')
            if isinstance(w, S) and ty in BITS and BITS.get(w.ty) == BITS[ty]: return S(w.v, ty)
            raise Unsupported('transmute %r as %s' % (v, ty))
        if kind.startswith('PointerExposeProvenance') or (kind.startswith('PtrToPtr') and isinstance(v, Ref)):
            if kind.startswith('PtrToPtr'): return v
            if isinstance(v, Ref): return S(self.addr_of(self.cur_state, v), 'usize')
            return v
        if isinstance(v, S) and ty in BITS:
            if v.conc():
                return S(wrap(int(v.v), ty), ty)
            src = 1 if v.ty == 'bool' else BITS[v.ty]; dst = BITS[ty]
            if v.ty == 'bool': return S(z3.If(v.v, z3.BitVecVal(1, dst), z3.BitVecVal(0, dst)), ty)
            if dst == src: return S(v.v, ty)
            if dst < src: return S(z3.Extract(dst - 1, 0, v.v), ty)
            return S(z3.SignExt(dst - src, v.v) if v.ty in SIGNED else z3.ZeroExt(dst - src, v.v), ty)
        raise Unsupported('cast %r as %s (%s)' % (v, ty, kind))

    # ---- rvalues
    def addr_of(self, st, ref):
        # default address model: every cell is its own allocation at a distinct, non-null, 4096-aligned address;
        # only the address of the cell itself (no projection) is meaningful. Harnesses that reason about element
        # addresses (lookups.py) install their own model.
        if ref.path: raise Unsupported('address of a projected reference (no address model installed)')
        return 0x100000 + 0x1000 * ref.cell

    def rvalue(self, st, fr, rv, dest_ty=None):
        self.cur_state = st
        k = rv.kind
        if k == 'use': return self.operand(st, fr, rv.args[0])
        if k == 'tls': raise Unsupported('thread-local state is not modelled (%s)' % rv.extra)
        if k == 'ref':
            cell, path = self.resolve(st, fr, rv.args[0])
            if self._sub is not None: return SubRef(cell, path, self._sub.off, self._sub.len)
            return Ref(cell, path)
        if k == 'binop':
            return self.binop(rv.extra, self.operand(st, fr, rv.args[0]), self.operand(st, fr, rv.args[1]))
        if k == 'unop':
            return self.unop(rv.extra, self.operand(st, fr, rv.args[0]), st)
        if k == 'discriminant':
            v = self.read_place(st, fr, rv.args[0])
            assert isinstance(v, En), (v, rv)
            return S(v.d.v, 'isize')
        if k == 'cast':
            return self.cast(self.operand(st, fr, rv.args[0]), rv.extra[0], rv.extra[1])
        if k == 'tuple':
            return Agg('tuple', [self.operand(st, fr, a) for a in rv.args])
        if k == 'array':
            el = [self.operand(st, fr, a) for a in rv.args]
            return VecV(S(len(el), 'usize'), len(el), el)
        if k == 'closure':
            return Agg(rv.extra[0], [self.operand(st, fr, a) for a in rv.args])
        if k == 'struct':
            return Agg(type_head(rv.extra[0]), [self.operand(st, fr, a) for a in rv.args])
        if k == 'ctor':
            return self.ctor(rv.extra, [self.operand(st, fr, a) for a in rv.args])
        raise Unsupported('rvalue ' + k)

    def ctor(self, path, args):
        sp = strip_generics(path)
        segs = sp.split('::')
        if len(segs) >= 2 and segs[-2] in ENUMS and segs[-1] in ENUMS[segs[-2]]:
            idx = ENUMS[segs[-2]].index(segs[-1])
            return En(segs[-2], S(idx, 'isize'), {idx: tuple(args)})
        return Agg(segs[-1], args)

    # ---- calls
    def lookup(self, callee, args, st):
        """returns ('mir', Func) | ('builtin', pyfunc)"""
        c = strip_generics(callee)
        # qualified: <Self as Trait>::method
        q = split_qualified(c)
        if q:
            selfty, trait, meth = q[0], type_head(q[1]), q[2]
            if selfty.strip().startswith('&') and meth == 'eq':
                return ('builtin', bi_ref_eq)
            head = type_head(selfty)
            return self.lookup_method(head, trait, meth, args, st, callee)
        segs = c.split('::')
        if len(segs) >= 2:
            head, meth = segs[-2], segs[-1]
            if head.startswith('<impl '):  # core::num::<impl usize>::wrapping_add
                head = head[len('<impl '):-1]
                head = type_head(head) if not head.startswith('[') and head != 'str' else head
            return self.lookup_method(head, None, meth, args, st, callee)
        if segs[-1] in self.prog.free:
            return ('mir', self.prog.free[segs[-1]])
        alias = FREE_ALIASES.get(segs[-1])        # core functions imported by name (`use core::iter::successors;`)
        if alias and alias in self.prog.free:
            return ('mir', self.prog.free[alias])
        b = BUILTINS.get(segs[-1])
        if b: return ('builtin', b)
        raise Unsupported('callee ' + callee)

    def runtime_head(self, v, st):
        while isinstance(v, Ref): v = self.deref(st, v)
        if isinstance(v, Agg): return v.ty
        if isinstance(v, En): return v.ty
        if isinstance(v, S): return v.ty
        if isinstance(v, VecV): return 'Vec'
        if isinstance(v, FnV): return 'fn'
        if isinstance(v, Opq): return 'Opq'
        if isinstance(v, StrV): return 'str'
        return None

    def lookup_method(self, head, trait, meth, args, st, callee, _retry=False):
        if head == 'Iter' and args:
            rh = self.runtime_head(args[0], st)
            if rh == 'SliceIter': head = 'SliceIter'
        if head in ('&[IndentedBlockState]', '&[&str]'): head = head[1:]
        # a type parameter (T, W, I, __A, Self ...): the implementation is chosen by the run-time type of the receiver, before
        # any trait-level default
        if args and not _retry and (len(head) <= 2 or head == 'Self' or head.startswith('__')):
            rh = self.runtime_head(args[0], st)
            if rh and rh != head:
                try:
                    return self.lookup_method(rh, trait, meth, args, st, callee, _retry=True)
                except Unsupported:
                    pass
        # local MIR definitions
        cands = self.prog.methods.get((head, meth), [])
        if trait in ('From', 'Into', 'TryFrom') and cands:
            # several impls of the same generic trait for one type (From<NodeId> for usize next to std's From<bool> for usize):
            # keep the local ones whose parameter type is the trait's type argument
            m_ = re.search(r' as (?:[A-Za-z_:]*::)?%s<(.+)>>::%s' % (trait, meth), callee or '')
            if m_:
                want = type_head(m_.group(1).strip())
                cands = [(t, f) for (t, f) in cands if not f.params or type_head(f.params[0][1].split('::')[-1]) == want or type_head(f.params[0][1]) == want]
        if trait is not None:
            c2 = [f for (t, f) in cands if t == trait]
            if c2: return ('mir', c2[0])
        else:
            c2 = [f for (t, f) in cands]
            if len(c2) >= 1: return ('mir', c2[0])
        key = (head, trait, meth)
        # shims / builtins
        name = SHIMS3.get((head, trait, meth)) if trait else None
        name = name or SHIMS.get((head, meth))
        if name and name in self.prog.free: return ('mir', self.prog.free[name])
        b = BUILTIN_METHODS.get((head, meth))
        if b: return ('builtin', b)
        name = SHIMS.get((trait, meth))
        if name and name in self.prog.free: return ('mir', self.prog.free[name])
        b = BUILTIN_METHODS.get((trait, meth))
        if b: return ('builtin', b)
        if head in BITS and trait == 'From' and meth == 'from': return ('builtin', bi_int_from)
        if head in BITS and meth in INT_METHODS: return ('builtin', bi_int_method)
        if head in BITS and meth == 'next_power_of_two': return ('builtin', bi_next_power_of_two)
        if head in BITS and meth == 'checked_next_power_of_two': return ('builtin', bi_checked_next_power_of_two)
        if trait == 'PartialOrd' and meth in ('lt', 'le', 'gt', 'ge'): return ('builtin', bi_derived_ord)
        if head in BITS and meth == 'is_power_of_two': return ('builtin', bi_is_power_of_two)
        # generic type parameter: dispatch on runtime type of first arg
        if args and (len(head) <= 2 or head in ('Self',)):
            rh = self.runtime_head(args[0], st)
            if rh and rh != head:
                return self.lookup_method(rh, trait, meth, args, st, callee)
        if trait in ('FnOnce', 'FnMut', 'Fn'):
            return ('builtin', bi_call_closure)
        # std type whose model in the shim crate has another name (vec::IntoIter -> VecIntoIter, ...): dispatch on the value
        if args and not _retry:
            rh = self.runtime_head(args[0], st)
            if rh and rh != head:
                return self.lookup_method(rh, trait, meth, args, st, callee, _retry=True)
        raise Unsupported('method %s (head=%s trait=%s)' % (callee, head, trait))

    def push_call(self, st, f, args, dest, ret_bb):
        self.called.add(f.name)
        loc = {n: st.new_cell() for n in f.locals}
        loc.setdefault(0, st.new_cell())
        assert len(args) == len(f.params), ('arity', f.name, len(args), len(f.params))
        for (n, _), a in zip(f.params, args):
            st.store[loc[n]] = a
        st.frames.append(Frame(f, loc, dest, ret_bb))

    def call_closure(self, st, fv, args, dest, ret_bb):
        """fv: Agg closure / FnV ; args: list of values"""
        if isinstance(fv, Ref): fv = self.deref(st, fv)
        if isinstance(fv, FnV):
            if fv.kind == 'closure': fv = fv.env
            elif fv.kind == 'ctor':
                return ('value', self.ctor(fv.name, args))
            else:
                kind, tgt = self.lookup(fv.name, args, st)
                if kind == 'mir':
                    self.push_call(st, tgt, args, dest, ret_bb); return ('pushed', None)
                return tgt(self, st, args, dest, ret_bb)
        assert isinstance(fv, Agg) and fv.ty.startswith('{closure@'), fv
        f = self.prog.closures[fv.ty]
        envty = f.params[0][1].strip()
        if envty.startswith('&'):
            c = st.new_cell(fv); env = Ref(c, ())
        else:
            env = fv
        self.push_call(st, f, [env] + list(args), dest, ret_bb)
        return ('pushed', None)

    # ---- main loop
    def run(self, st0, stop_depth=0):
        """explore all paths from st0 until frame depth == stop_depth; returns list of Outcome"""
        work = [st0]
        outs = []
        while work:
            st = work.pop()
            while True:
                if len(st.frames) == stop_depth:
                    break
                st.steps += 1
                if st.steps > self.max_steps:
                    outs.append(Outcome('bound', st, msg='step bound exceeded')); break
                fr = st.frames[-1]
                stmts, term = fr.func.blocks[fr.bb]
                if fr.idx < len(stmts):
                    s = stmts[fr.idx]; fr.idx += 1
                    if s.kind == 'assign':
                        v = self.rvalue(st, fr, s.rv)
                        self.write_place(st, fr, s.place, v)
                    elif s.kind == 'setdiscr':
                        raise Unsupported('setdiscr')
                    continue
                # terminator
                k = term.kind
                if k == 'goto':
                    fr.bb = term.target; fr.idx = 0
                elif k == 'return':
                    rv = st.store[fr.loc[0]]
                    if rv is UNINIT: rv = UNIT
                    st.frames.pop()
                    if len(st.frames) == stop_depth:
                        outs.append(Outcome('return', st, rv)); break
                    caller = st.frames[-1]
                    if fr.dest is not None:
                        self.write_place(st, caller, fr.dest, rv)
                    caller.bb = fr.ret_bb; caller.idx = 0
                elif k == 'switch':
                    v = self.operand(st, fr, term.operand)
                    assert isinstance(v, S), v
                    if v.conc():
                        val = int(v.v)
                        tgt = None
                        for (kv, bb) in term.targets:
                            if kv is None: other = bb
                            elif kv == val: tgt = bb
                        fr.bb = tgt if tgt is not None else other; fr.idx = 0
                    else:
                        conds = []
                        others = []
                        for (kv, bb) in term.targets:
                            if kv is None:
                                c = z3.And(*others) if others else True
                            else:
                                if v.ty == 'bool':
                                    c = zbool(v.v) if kv != 0 else z3.Not(zbool(v.v))
                                else:
                                    c = (v.v == kv)
                                others.append(z3.Not(c))
                            conds.append((c, bb))
                        feas = [(c, bb) for (c, bb) in conds if self.feasible(st, c)]
                        if not feas:
                            outs.append(Outcome('dead', st)); break
                        for (c, bb) in feas[1:]:
                            s2 = st.copy(); s2.pc.append(c if not isinstance(c, bool) else z3.BoolVal(c))
                            s2.model = self.fix_model(s2, c)
                            s2.frames[-1].bb = bb; s2.frames[-1].idx = 0
                            work.append(s2)
                        c, bb = feas[0]
                        if len(feas) > 1 or True:
                            if not isinstance(c, bool): st.pc.append(c)
                            st.model = self.fix_model(st, c)
                        fr.bb = bb; fr.idx = 0
                elif k == 'assert':
                    v = self.operand(st, fr, term.operand)
                    ok = v.v if term.cond_expected else (not v.v if v.conc() else z3.Not(v.v))
                    if isinstance(ok, bool):
                        if ok: fr.bb = term.target; fr.idx = 0
                        else:
                            outs.append(Outcome('panic', st, msg='assert ' + term.msg)); break
                    else:
                        bad = z3.Not(ok)
                        if self.feasible(st, bad):
                            s2 = st.copy(); s2.pc.append(bad); s2.model = None
                            outs.append(Outcome('panic', s2, msg='assert ' + term.msg))
                        if self.feasible(st, ok):
                            st.pc.append(ok); st.model = self.fix_model(st, ok); fr.bb = term.target; fr.idx = 0
                        else:
                            break
                elif k == 'drop':
                    v = self.read_place_maybe(st, fr, term.dest)
                    self.record_drop(st, v, True)
                    fr.bb = term.target; fr.idx = 0
                elif k == 'unreachable':
                    outs.append(Outcome('unreachable', st)); break
                elif k == 'resume':
                    outs.append(Outcome('panic', st, msg='resume')); break
                elif k == 'call':
                    r = self.do_call(st, fr, term, work, outs)
                    if r == 'stop': break
                else:
                    raise Unsupported('terminator ' + k)
        return outs

    def read_place_maybe(self, st, fr, place):
        try:
            cell, path = self.resolve(st, fr, place)
            return self.get(st.store[cell], path, st)
        except Unsupported:
            return UNINIT

    def record_drop(self, st, v, cond):
        if v is UNINIT or v is None: return
        if isinstance(v, Opq): st.drops.append((cond, v.e))
        elif isinstance(v, Agg):
            for x in v.f: self.record_drop(st, x, cond)
        elif isinstance(v, En):
            for k, p in v.pay.items():
                c = cond if v.d.conc() else z3.And(zbool(cond), v.d.v == k)
                if v.d.conc() and v.d.v != k: continue
                for x in p: self.record_drop(st, x, c)
        elif isinstance(v, VecV):
            for j, x in enumerate(v.el):
                if x is UNINIT: continue
                c = cond if v.len.conc() else z3.And(zbool(cond), z3.UGT(bv(v.len.v, 'usize'), j))
                if v.len.conc() and j >= v.len.v: continue
                self.record_drop(st, x, c)

    def do_call(self, st, fr, term, work, outs):
        callee = term.callee
        args = [self.operand(st, fr, a) for a in term.args]
        # indirect call through a local
        m = re.match(r'^(copy|move) (_\d+)$', callee)
        if m:
            fv = st.store[fr.loc[int(m.group(2)[1:])]]
            r = self.call_closure(st, fv, args, term.dest, term.target)
        else:
            kind, tgt = self.lookup(callee, args, st)
            if kind == 'mir':
                if term.target is None and False: pass
                self.push_call(st, tgt, args, term.dest, term.target)
                return 'ok'
            self.modelled.add(strip_generics(callee)[:80])
            r = tgt(self, st, args, term.dest, term.target, callee=callee)
        return self.finish_builtin(st, fr, term, r, work, outs)

    def finish_builtin(self, st, fr, term, r, work, outs):
        """r: ('value', v) | ('pushed', None) | ('panic', msg) | ('fork', [(cond, result), ...])"""
        if r[0] == 'pushed': return 'ok'
        if r[0] == 'value':
            if term.target is None:
                outs.append(Outcome('panic', st, msg='diverging builtin returned')); return 'stop'
            self.write_place(st, fr, term.dest, r[1])
            fr.bb = term.target; fr.idx = 0
            return 'ok'
        if r[0] == 'panic':
            outs.append(Outcome('panic', st, msg=r[1])); return 'stop'
        if r[0] == 'fork_call':
            # each alternative: push a call to the shim write_pieces(w, strs, chars, is_char)
            feas = [(c, res) for (c, res) in r[1] if self.feasible(st, c)]
            states = [st] + [st.copy() for _ in feas[1:]]
            for s_, (c, res) in zip(states, feas):
                if not isinstance(c, bool):
                    s_.pc.append(c); s_.model = self.fix_model(s_, c)
                cells = [Ref(s_.new_cell(v), ()) for v in res[1]]
                self.push_call(s_, self.prog.free['write_pieces'], [r[2]] + cells, term.dest, term.target)
                if s_ is not st: work.append(s_)
            return 'ok' if feas else 'stop'
        if r[0] == 'fork':
            feas = [(c, res) for (c, res) in r[1] if self.feasible(st, c)]
            if not feas:
                outs.append(Outcome('dead', st)); return 'stop'
            states = [st] + [st.copy() for _ in feas[1:]]
            cont = 'stop'
            for s_, (c, res) in zip(states, feas):
                if not isinstance(c, bool):
                    s_.pc.append(c); s_.model = self.fix_model(s_, c)
                rr = self.finish_builtin(s_, s_.frames[-1], term, res, work, outs)
                if s_ is st: cont = rr
                elif rr == 'ok': work.append(s_)
            return cont
        raise Unsupported('builtin result %r' % (r,))

# ---------------- builtins ----------------
def bi_panic(eng, st, args, dest, ret_bb, callee=''):
    msg = ''
    for a in args:
        if isinstance(a, StrV): msg = a.s
    return ('panic', callee + ' ' + msg)

def bi_opaque(eng, st, args, dest, ret_bb, callee=''):
    return ('value', Agg('opaque:' + callee, ()))

def vec_of(eng, st, r):
    v = eng.deref(st, r) if isinstance(r, Ref) else r
    assert isinstance(v, VecV), v
    return v

def in_bounds(i, ln):
    if i.conc() and ln.conc(): return i.v < ln.v
    return z3.ULT(bv(i.v, 'usize'), bv(ln.v, 'usize'))

def neg(c):
    return (not c) if isinstance(c, bool) else z3.Not(c)

def bi_vec_index(eng, st, args, dest, ret_bb, callee=''):
    r, i = args
    if isinstance(i, Agg) and i.ty.startswith('Range'):
        import fmtmodel
        return fmtmodel.bi_slice_range(eng, st, args, dest, ret_bb, callee)
    v = vec_of(eng, st, r)
    ok = in_bounds(i, v.len)
    return ('fork', [(ok, ('value', Ref(r.cell, r.path + (('i', i),)))), (neg(ok), ('panic', 'index out of bounds'))])

def bi_split_at_mut(eng, st, args, dest, ret_bb, callee=''):
    r, k = args
    if isinstance(r, SubRef): base, ln = r.off, r.len
    else: base, ln = S(0, 'usize'), vec_of(eng, st, r).len
    ok = eng.binop('Le', k, ln)
    okc = ok.v
    a = SubRef(r.cell, r.path, base, k); b = SubRef(r.cell, r.path, eng.binop('Add', base, k), eng.binop('Sub', ln, k))
    return ('fork', [(okc, ('value', Agg('tuple', [a, b]))), (neg(okc), ('panic', 'mid > len'))])

def bi_int_from(eng, st, args, dest, ret_bb, callee=''):
    """<uN as From<bool / narrower integer>>::from: lossless conversion"""
    v = args[0]
    m = re.match(r'^<([a-z0-9]+) as ', callee or '')
    if not (isinstance(v, S) and m and m.group(1) in BITS): raise Unsupported('From::from %s' % callee)
    return ('value', eng.cast(v, m.group(1), 'IntToInt'))

def bi_vec_len(eng, st, args, dest, ret_bb, callee=''):
    return ('value', vec_of(eng, st, args[0]).len)

def bi_identity(eng, st, args, dest, ret_bb, callee=''):
    return ('value', args[0])

def bi_slice_get(eng, st, args, dest, ret_bb, callee=''):
    r, i = args
    v = vec_of(eng, st, r)
    ok = in_bounds(i, v.len)
    d = S(1 if ok else 0, 'isize') if isinstance(ok, bool) else S(z3.If(ok, z3.BitVecVal(1, 64), z3.BitVecVal(0, 64)), 'isize')
    return ('value', En('Option', d, {0: (), 1: (Ref(r.cell, r.path + (('i', i),)),)}))

def bi_vec_push(eng, st, args, dest, ret_bb, callee=''):
    r, x = args
    v = vec_of(eng, st, r)
    if not v.len.conc(): raise Unsupported('push on symbolic len')
    n = v.len.v
    el = list(v.el)
    if n >= len(el): el.append(x)
    else: el[n] = x
    eng.store_ref(st, r, VecV(S(n + 1, 'usize'), cap_at_least(v.cap, S(n + 1, 'usize')), el))
    return ('value', UNIT)

def cap_S(cap):
    return cap if isinstance(cap, S) else S(cap, 'usize')

def cap_at_least(cap, need):
    """capacity after growing to hold `need` elements: unchanged if already large enough, else exactly `need`
    (std may allocate more; the model picks the documented lower bound)"""
    cap = cap_S(cap)
    if cap.conc() and need.conc(): return S(max(cap.v, need.v), 'usize')
    a, b = bv(cap.v, 'usize'), bv(need.v, 'usize')
    return S(z3.If(z3.UGE(a, b), a, b), 'usize')

def bi_vec_with_capacity(eng, st, args, dest, ret_bb, callee=''):
    return ('value', VecV(S(0, 'usize'), args[0], []))

def bi_vec_reserve(eng, st, args, dest, ret_bb, callee=''):
    r, add = args
    v = vec_of(eng, st, r)
    need = eng.binop('AddWithOverflow', v.len, add)
    ov = need.f[1]
    newv = VecV(v.len, cap_at_least(v.cap, need.f[0]), v.el)
    if ov.conc():
        if ov.v: return ('panic', 'capacity overflow')
        eng.store_ref(st, r, newv); return ('value', UNIT)
    st2 = None
    eng.store_ref(st, r, newv)
    return ('fork', [(z3.Not(ov.v), ('value', UNIT)), (ov.v, ('panic', 'capacity overflow'))])

def bi_vec_shrink(eng, st, args, dest, ret_bb, callee=''):
    r = args[0]; v = vec_of(eng, st, r)
    eng.store_ref(st, r, VecV(v.len, v.len, v.el))
    return ('value', UNIT)

def bi_opq_clone(eng, st, args, dest, ret_bb, callee=''):
    v = args[0]
    while isinstance(v, Ref): v = eng.deref(st, v)
    return ('value', v)

def bi_opq_eq(eng, st, args, dest, ret_bb, callee=''):
    a, b = args
    while isinstance(a, Ref): a = eng.deref(st, a)
    while isinstance(b, Ref): b = eng.deref(st, b)
    return ('value', S(a.e == b.e, 'bool'))

def opt_some(v): return En('Option', S(1, 'isize'), {1: (v,)})
def opt_none(): return En('Option', S(0, 'isize'), {0: ()})

def bi_vec_pop(eng, st, args, dest, ret_bb, callee=''):
    rf = args[0]; v = vec_of(eng, st, rf)
    if not v.len.conc(): raise Unsupported('pop on symbolic len')
    n = v.len.v
    if n == 0: return ('value', opt_none())
    x = v.el[n - 1]
    eng.store_ref(st, rf, VecV(S(n - 1, 'usize'), v.cap, v.el))
    return ('value', opt_some(x))

def bi_sliceiter_next(eng, st, args, dest, ret_bb, callee=''):
    itref = args[0]; it = eng.deref(st, itref)
    rf, lo, hi = it.f
    if not (lo.conc() and hi.conc()): raise Unsupported('slice iterator with symbolic bounds')
    if lo.v >= hi.v: return ('value', opt_none())
    eng.store_ref(st, itref, Agg('SliceIter', (rf, S(lo.v + 1, 'usize'), hi)))
    return ('value', opt_some(Ref(rf.cell, rf.path + (('i', lo),))))

def bi_sliceiter_next_back(eng, st, args, dest, ret_bb, callee=''):
    itref = args[0]; it = eng.deref(st, itref)
    rf, lo, hi = it.f
    if not (lo.conc() and hi.conc()): raise Unsupported('slice iterator with symbolic bounds')
    if lo.v >= hi.v: return ('value', opt_none())
    eng.store_ref(st, itref, Agg('SliceIter', (rf, lo, S(hi.v - 1, 'usize'))))
    return ('value', opt_some(Ref(rf.cell, rf.path + (('i', S(hi.v - 1, 'usize')),))))

def bi_box_new_uninit(eng, st, args, dest, ret_bb, callee=''):
    """Box::<[T; N]>::new_uninit() as emitted for `vec![a, b, ..]`: a fresh cell holding MaybeUninit { uninit, value: ManuallyDrop(MaybeDangling(_)) }"""
    c = st.new_cell(Agg('MaybeUninit', (UNIT, Agg('ManuallyDrop', (Agg('MaybeDangling', (UNINIT,)),)))))
    return ('value', Agg('Box', (Agg('Unique', (Agg('NonNull', (Ref(c, ()),)),)),)))

def bi_box_into_vec(eng, st, args, dest, ret_bb, callee=''):
    b = args[0]
    r = b
    while isinstance(r, Agg): r = r.f[0]
    v = eng.deref(st, r)
    arr = v.f[1].f[0].f[0]
    if not isinstance(arr, VecV): raise Unsupported('box_assume_init_into_vec on %r' % (arr,))
    return ('value', VecV(arr.len, arr.len, list(arr.el)))

def bi_vec_new(eng, st, args, dest, ret_bb, callee=''):
    return ('value', VecV(S(0, 'usize'), 0, []))

def bi_vec_clear(eng, st, args, dest, ret_bb, callee=''):
    r = args[0]
    v = vec_of(eng, st, r)
    eng.record_drop(st, v, True)
    eng.store_ref(st, r, VecV(S(0, 'usize'), v.cap, [UNINIT] * len(v.el)))
    return ('value', UNIT)

def bi_nonzero_new(eng, st, args, dest, ret_bb, callee=''):
    x = args[0]
    if x.conc():
        return ('value', En('Option', S(1 if x.v != 0 else 0, 'isize'), {0: (), 1: (Agg('NonZero', (x,)),)}))
    d = S(z3.If(x.v != 0, z3.BitVecVal(1, 64), z3.BitVecVal(0, 64)), 'isize')
    return ('value', En('Option', d, {0: (), 1: (Agg('NonZero', (x,)),)}))

def bi_nonzero_get(eng, st, args, dest, ret_bb, callee=''):
    return ('value', args[0].f[0])

def bi_prim_eq(eng, st, args, dest, ret_bb, callee=''):
    a, b = args
    while isinstance(a, Ref): a = eng.deref(st, a)
    while isinstance(b, Ref): b = eng.deref(st, b)
    if isinstance(a, Agg) and a.ty == 'NonZero': a, b = a.f[0], b.f[0]
    return ('value', eng.binop('Eq', a, b))

def bi_ref_eq(eng, st, args, dest, ret_bb, callee=''):
    """<&T as PartialEq>::eq(&&T, &&T) -> dispatch on T"""
    a, b = args
    a = eng.deref(st, a); b = eng.deref(st, b)
    va = a
    while isinstance(va, Ref): va = eng.deref(st, va)
    vb = b
    while isinstance(vb, Ref): vb = eng.deref(st, vb)
    if isinstance(va, StrV) and isinstance(vb, StrV):
        import fmtmodel
        return ('value', S(fmtmodel.sval(va) == fmtmodel.sval(vb), 'bool'))
    if isinstance(va, S) or (isinstance(va, Agg) and va.ty == 'NonZero'):
        return bi_prim_eq(eng, st, [a, b], dest, ret_bb)
    head = eng.runtime_head(va, st)
    kind, tgt = eng.lookup_method(head, 'PartialEq', 'eq', [a, b], st, callee)
    if kind == 'mir':
        eng.push_call(st, tgt, [a, b], dest, ret_bb); return ('pushed', None)
    return tgt(eng, st, [a, b], dest, ret_bb, callee=callee)

def bi_clone(eng, st, args, dest, ret_bb, callee=''):
    a = args[0]
    v = eng.deref(st, a)
    return ('value', v)

def bi_mem_replace(eng, st, args, dest, ret_bb, callee=''):
    r, new = args
    old = eng.deref(st, r)
    eng.store_ref(st, r, new)
    return ('value', old)

def bi_call_closure(eng, st, args, dest, ret_bb, callee=''):
    f = args[0]
    tup = args[1]
    return eng.call_closure(st, f, list(tup.f), dest, ret_bb)

def bi_into(eng, st, args, dest, ret_bb, callee=''):
    v = args[0]
    if isinstance(v, En): return ('value', v)
    return ('value', En('Option', S(1, 'isize'), {1: (v,)}))

def bi_int_method(eng, st, args, dest, ret_bb, callee=''):
    """primitive integer methods that core implements with intrinsics"""
    meth = strip_generics(callee).split('::')[-1]
    a = args[0]
    if meth.startswith('overflowing_'):
        r = eng.binop({'add': 'AddWithOverflow', 'sub': 'SubWithOverflow', 'mul': 'MulWithOverflow'}[meth[12:]], a, args[1])
        return ('value', Agg('tuple', r.f))
    if meth == 'wrapping_neg':
        return ('value', eng.binop('Sub', S(0, a.ty), a))
    if meth.startswith('wrapping_'):
        return ('value', eng.binop({'add': 'Add', 'sub': 'Sub', 'mul': 'Mul'}[meth[9:]], a, args[1]))
    raise Unsupported('integer method ' + callee)

def _flatten_scalars(eng, st, v, out):
    while isinstance(v, Ref): v = eng.deref(st, v)
    if isinstance(v, S): out.append(v)
    elif isinstance(v, Agg):
        for x in v.f: _flatten_scalars(eng, st, x, out)
    else: raise Unsupported('ordering comparison of %r' % (v,))

def bi_derived_ord(eng, st, args, dest, ret_bb, callee=''):
    """lt / le / gt / ge of a type whose PartialOrd is derived (lexicographic over the fields in declaration order) or of a scalar"""
    meth = strip_generics(callee).split('::')[-1]
    a, b = args
    va = a
    while isinstance(va, Ref): va = eng.deref(st, va)
    if isinstance(va, Agg):
        impls = eng.prog.methods.get((va.ty, 'partial_cmp'), [])
        for (t, f) in impls:
            m_ = re.search(r'<impl at ([^:]+):(\d+):(\d+)', f.name)
            if m_ and eng.prog.src_line(m_.group(1), int(m_.group(2)))[int(m_.group(3)) - 1:].startswith('impl'):
                raise Unsupported('hand-written PartialOrd for %s: lt/le/gt/ge need its partial_cmp (not modelled)' % va.ty)
    xs, ys = [], []
    _flatten_scalars(eng, st, a, xs); _flatten_scalars(eng, st, b, ys)
    if len(xs) != len(ys): raise Unsupported('ordering comparison of different shapes')
    lt = S(False, 'bool'); eq = S(True, 'bool')
    for x, y in zip(xs, ys):
        lt = eng.binop('BitOr', lt, eng.binop('BitAnd', eq, eng.binop('Lt', x, y)))
        eq = eng.binop('BitAnd', eq, eng.binop('Eq', x, y))
    gt = eng.binop('BitAnd', eng.unop('Not', lt), eng.unop('Not', eq))
    res = {'lt': lt, 'le': eng.binop('BitOr', lt, eq), 'gt': gt, 'ge': eng.unop('Not', lt)}[meth]
    return ('value', res)

def bi_checked_next_power_of_two(eng, st, args, dest, ret_bb, callee=''):
    r = bi_next_power_of_two(eng, st, args, dest, ret_bb, callee)[1]
    ok = eng.binop('Ne', r, S(0, r.ty))
    d = S(1 if ok.v else 0, 'isize') if ok.conc() else S(z3.If(ok.v, z3.BitVecVal(1, 64), z3.BitVecVal(0, 64)), 'isize')
    return ('value', En('Option', d, {0: (), 1: (r,)}))

def bi_next_power_of_two(eng, st, args, dest, ret_bb, callee=''):
    a = args[0]
    if a.conc():
        v = 1
        while v < a.v: v <<= 1
        return ('value', S(v, a.ty))
    x = bv(a.v, a.ty); b = BITS[a.ty]
    acc = z3.BitVecVal(0, b)          # overflow (v > 2^(b-1)) wraps to 0 in release builds; debug builds panic - not modelled, callers stay far below
    for i in range(b - 1, -1, -1):
        acc = z3.If(z3.ULE(x, z3.BitVecVal(1 << i, b)), z3.BitVecVal(1 << i, b), acc)
    return ('value', S(acc, a.ty))

def bi_is_power_of_two(eng, st, args, dest, ret_bb, callee=''):
    a = args[0]
    if a.conc(): return ('value', S(a.v > 0 and (a.v & (a.v - 1)) == 0, 'bool'))
    x = bv(a.v, a.ty)
    return ('value', S(z3.And(x != 0, (x & (x - 1)) == 0), 'bool'))

INT_METHODS = {'overflowing_add', 'overflowing_sub', 'overflowing_mul', 'wrapping_add', 'wrapping_sub', 'wrapping_mul', 'wrapping_neg'}

def bi_default_zero(eng, st, args, dest, ret_bb, callee=''):
    q = split_qualified(strip_generics(callee))
    return ('value', S(0, q[0].strip()))

def bi_wrapping_add(eng, st, args, dest, ret_bb, callee=''):
    return ('value', eng.binop('Add', args[0], args[1]))

def bi_as_ptr_range(eng, st, args, dest, ret_bb, callee=''):
    r = args[0]
    v = vec_of(eng, st, r)
    return ('value', Agg('Range', (Ref(r.cell, r.path + (('i', S(0, 'usize')),)), Ref(r.cell, r.path + (('i', v.len),)))))

def bi_as_ptr(eng, st, args, dest, ret_bb, callee=''):
    r = args[0]
    vec_of(eng, st, r)
    return ('value', Ref(r.cell, r.path + (('i', S(0, 'usize')),)))

def bi_range_contains(eng, st, args, dest, ret_bb, callee=''):
    rng = eng.deref(st, args[0]); x = eng.deref(st, args[1])
    while isinstance(x, Ref) and not isinstance(rng.f[0], Ref): x = eng.deref(st, x)
    lo, hi = rng.f[0], rng.f[1]
    if isinstance(lo, Ref):
        a = S(eng.addr_of(st, lo), 'usize'); b = S(eng.addr_of(st, hi), 'usize')
        while isinstance(x, Ref) and isinstance(eng.deref(st, x), Ref): x = eng.deref(st, x)
        p = S(eng.addr_of(st, x), 'usize')
    else:
        a, b, p = lo, hi, x
    c1 = eng.binop('Le', a, p); c2 = eng.binop('Lt', p, b)
    return ('value', eng.binop('BitAnd', c1, c2))

def bi_size_of(eng, st, args, dest, ret_bb, callee=''):
    if 'Node<T>' in callee and getattr(eng, 'node_size', None): return ('value', S(eng.node_size, 'usize'))
    raise Unsupported('size_of ' + callee)

def bi_slice_iter_any(eng, st, args, dest, ret_bb, callee=''):
    rf = args[0]; v = vec_of(eng, st, rf)
    return ('value', Agg('SliceIter', (rf, S(0, 'usize'), v.len)))

def bi_vec_capacity(eng, st, args, dest, ret_bb, callee=''):
    v = vec_of(eng, st, args[0])
    return ('value', v.cap if isinstance(v.cap, S) else S(v.cap, 'usize'))

def bi_mem_take(eng, st, args, dest, ret_bb, callee=''):
    r = args[0]
    old = eng.deref(st, r)
    if isinstance(old, En) and old.ty == 'Option': new = En('Option', S(0, 'isize'), {0: ()})
    elif isinstance(old, S): new = S(0 if old.ty != 'bool' else False, old.ty)
    elif isinstance(old, VecV): new = VecV(S(0, 'usize'), 0, [])
    else: raise Unsupported('mem::take of %r' % (old,))
    eng.store_ref(st, r, new)
    return ('value', old)

def bi_mem_swap(eng, st, args, dest, ret_bb, callee=''):
    a, b = args
    va, vb = eng.deref(st, a), eng.deref(st, b)
    eng.store_ref(st, a, vb); eng.store_ref(st, b, va)
    return ('value', UNIT)

def bi_drop_fn(eng, st, args, dest, ret_bb, callee=''):
    eng.record_drop(st, args[0] if args else None, True)
    return ('value', UNIT)

def bi_sliceiter_len(eng, st, args, dest, ret_bb, callee=''):
    it = args[0]
    while isinstance(it, Ref): it = eng.deref(st, it)
    return ('value', eng.binop('Sub', it.f[2], it.f[1]))

FREE_ALIASES = {'successors': 'iter_successors', 'from_fn': 'iter_from_fn'}

BUILTINS = {
    'drop': bi_drop_fn, 'take': bi_mem_take, 'swap': bi_mem_swap,
    'size_of': bi_size_of, 'box_assume_init_into_vec_unsafe': bi_box_into_vec,
    'panic': bi_panic, 'panic_fmt': bi_panic, 'assert_failed': bi_panic, 'unwrap_failed': bi_panic,
    'replace': bi_mem_replace,
}
BUILTIN_METHODS = {
    ('panicking', 'assert_failed'): bi_panic, ('panicking', 'panic'): bi_panic, ('panicking', 'panic_fmt'): bi_panic,
    ('Arguments', 'from_str'): bi_opaque, ('Arguments', 'new'): bi_opaque, ('Arguments', 'from_str_nonconst'): bi_opaque,
    ('Vec', 'index'): bi_vec_index, ('Vec', 'index_mut'): bi_vec_index, ('Vec', 'len'): bi_vec_len, ('Vec', 'push'): bi_vec_push,
    ('Vec', 'new'): bi_vec_new, ('Vec', 'clear'): bi_vec_clear, ('Vec', 'deref'): bi_identity, ('Vec', 'deref_mut'): bi_identity,
    ('Vec', 'as_slice'): bi_identity, ('Vec', 'with_capacity'): bi_vec_with_capacity, ('Vec', 'capacity'): bi_vec_capacity,
    ('Vec', 'reserve'): bi_vec_reserve, ('Vec', 'reserve_exact'): bi_vec_reserve, ('Vec', 'shrink_to_fit'): bi_vec_shrink, ('Vec', 'pop'): bi_vec_pop, ('SliceIter', 'next'): bi_sliceiter_next, ('SliceIter', 'next_back'): bi_sliceiter_next_back,
    ('SliceIter', 'len'): bi_sliceiter_len, ('mem', 'drop'): bi_drop_fn, ('mem', 'take'): bi_mem_take, ('mem', 'swap'): bi_mem_swap,
    ('Box', 'new_uninit'): bi_box_new_uninit, ('boxed', 'box_assume_init_into_vec_unsafe'): bi_box_into_vec, ('Opq', 'clone'): bi_opq_clone, ('Opq', 'eq'): bi_opq_eq,
    ('[Node<T>]', 'get'): bi_slice_get, ('[Node<T>]', 'get_mut'): bi_slice_get,
    ('[Node<T>]', 'as_ptr_range'): bi_as_ptr_range, ('Vec', 'as_ptr'): bi_as_ptr, ('Vec', 'as_mut_ptr'): bi_as_ptr, ('[Node<T>]', 'as_ptr'): bi_as_ptr,
    ('Vec', 'as_ptr_range'): bi_as_ptr_range, ('Range', 'contains'): bi_range_contains, ('mem', 'size_of'): bi_size_of,
    ('[Node<T>]', 'iter'): bi_slice_iter_any, ('[Node<T>]', 'iter_mut'): bi_slice_iter_any, ('[Node<T>]', 'len'): bi_vec_len,
    ('Vec', 'as_mut_slice'): bi_identity, ('[Node<T>]', 'split_at_mut'): bi_split_at_mut, ('[Node<T>]', 'split_at'): bi_split_at_mut, ('Vec', 'split_at_mut'): bi_split_at_mut, ('slice', 'split_at_mut'): bi_split_at_mut, ('Vec', 'iter'): bi_slice_iter_any, ('Vec', 'iter_mut'): bi_slice_iter_any,
    ('NonZero', 'new'): bi_nonzero_new, ('NonZero', 'get'): bi_nonzero_get, ('NonZero', 'eq'): bi_prim_eq,
    ('usize', 'eq'): bi_prim_eq, ('i16', 'eq'): bi_prim_eq, ('isize', 'eq'): bi_prim_eq, ('u8', 'eq'): bi_prim_eq, ('bool', 'eq'): bi_prim_eq,
    ('mem', 'replace'): bi_mem_replace,
    ('usize', 'wrapping_add'): bi_wrapping_add,
    ('usize', 'clone'): bi_clone, ('NonZero', 'clone'): bi_clone, ('i16', 'clone'): bi_clone,
    ('Into', 'into'): bi_into,
    ('i16', 'default'): bi_default_zero, ('usize', 'default'): bi_default_zero,
}
SHIMS = {}
for _m in ('is_some', 'is_none', 'is_some_and', 'is_none_or', 'map', 'map_or', 'map_or_else', 'or', 'and', 'xor', 'or_else', 'and_then', 'filter',
           'take', 'replace', 'insert', 'get_or_insert', 'unwrap', 'expect', 'unwrap_or', 'unwrap_or_else', 'unwrap_or_default', 'ok_or',
           'ok_or_else', 'zip', 'as_ref', 'as_mut', 'copied', 'cloned', 'into_iter'):
    SHIMS[('Option', _m)] = 'option_' + _m
for _m in ('expect', 'unwrap', 'expect_err', 'unwrap_err', 'unwrap_or', 'unwrap_or_else', 'is_ok', 'is_err', 'ok', 'err', 'map', 'map_err',
           'and_then', 'or_else'):
    SHIMS[('Result', _m)] = 'result_' + _m
for _m in ('any', 'all', 'find', 'find_map', 'position', 'rposition', 'nth', 'count', 'last', 'fold', 'for_each', 'skip', 'take', 'rev', 'take_while', 'skip_while',
           'map', 'filter', 'filter_map', 'enumerate', 'chain', 'peekable', 'by_ref'):
    SHIMS[('Iterator', _m)] = 'iter_' + _m
SHIMS[('IntoIterator', 'into_iter')] = 'iter_into_iter'
SHIMS[('Peekable', 'peek')] = 'peekable_peek'
SHIMS[('iter', 'successors')] = 'iter_successors'; SHIMS[('iter', 'from_fn')] = 'iter_from_fn'
for _m in ('is_negative', 'is_positive', 'abs', 'wrapping_neg', 'wrapping_abs', 'checked_neg', 'checked_add', 'checked_sub', 'saturating_add',
           'saturating_sub', 'saturating_neg', 'signum', 'min', 'max'):
    SHIMS[('i16', _m)] = 'i16_' + _m
for _m in ('checked_sub', 'checked_add', 'saturating_sub', 'saturating_add', 'min', 'max'):
    SHIMS[('usize', _m)] = 'usize_' + _m
SHIMS[('Range', 'next')] = 'range_next'; SHIMS[('Range', 'next_back')] = 'range_next_back'
SHIMS[('PartialEq', 'ne')] = 'partial_ne'
SHIMS[('bool', 'then_some')] = 'bool_then_some'; SHIMS[('bool', 'then')] = 'bool_then'
SHIMS3 = {
    ('Option', 'PartialEq', 'eq'): 'option_eq', ('Option', 'PartialEq', 'ne'): 'option_ne', ('Option', 'Clone', 'clone'): 'option_clone',
    ('Option', 'Default', 'default'): 'option_default',
    ('Option', 'Try', 'branch'): 'option_branch', ('Option', 'FromResidual', 'from_residual'): 'option_from_residual',
    ('Option', 'Try', 'from_output'): 'option_from_output',
    ('Result', 'Try', 'branch'): 'result_branch', ('Result', 'FromResidual', 'from_residual'): 'result_from_residual',
    ('Result', 'Try', 'from_output'): 'result_from_output',
    ('Option', 'IntoIterator', 'into_iter'): 'option_into_iter',
    ('Vec', 'Clone', 'clone'): 'vec_clone', ('Vec', 'PartialEq', 'eq'): 'vec_eq',
    ('Vec', 'Clone', 'clone_from'): 'vec_clone_from',
    ('Vec', 'Extend', 'extend'): 'vec_extend', ('Vec', 'IntoIterator', 'into_iter'): 'vec_into_iter',
}
for _m in ('is_empty', 'contains', 'first', 'last', 'truncate', 'reverse'):
    SHIMS[('Vec', _m)] = 'vec_' + _m
SHIMS[('Iterator', 'collect')] = 'iter_collect_vec'
SHIMS[('Clone', 'clone_from')] = 'default_clone_from'
# <&T as PartialEq>::eq
BUILTIN_METHODS[('&T', 'eq')] = bi_ref_eq
