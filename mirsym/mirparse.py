"""Parser for rustc -Zunpretty=mir text (subset)."""
import re, sys
from dataclasses import dataclass, field
from typing import Any

# ---------- balanced scanning helpers ----------
OPEN = {'(': ')', '[': ']', '{': '}'}
CLOSE = {')', ']', '}'}

def skip_string(s, i):
    """s[i] == '"'; return index after closing quote."""
    j = i + 1
    while j < len(s):
        if s[j] == '\\':
            j += 2
            continue
        if s[j] == '"':
            return j + 1
        j += 1
    raise ValueError('unterminated string: ' + s)

def split_top(s, sep=','):
    """split on sep at nesting depth 0 (parens/brackets/braces/angle), skipping strings."""
    out, depth, ang, cur, i = [], 0, 0, [], 0
    while i < len(s):
        c = s[i]
        if c == '"':
            j = skip_string(s, i)
            cur.append(s[i:j]); i = j; continue
        if c in OPEN:
            depth += 1
        elif c in CLOSE:
            depth -= 1
        elif c == '<':
            ang += 1
        elif c == '>':
            if i > 0 and s[i-1] == '-':
                pass
            elif ang > 0:
                ang -= 1
        if c == sep and depth == 0 and ang == 0:
            out.append(''.join(cur).strip()); cur = []
        else:
            cur.append(c)
        i += 1
    t = ''.join(cur).strip()
    if t:
        out.append(t)
    return out

def match_paren_back(s, end):
    """s[end] is ')' ; return index of matching '(' scanning backwards (strings-aware approx)."""
    # forward scan to compute matching pairs, strings-aware
    stack, pairs, i = [], {}, 0
    while i < len(s):
        c = s[i]
        if c == '"':
            i = skip_string(s, i); continue
        if c in OPEN:
            stack.append(i)
        elif c in CLOSE:
            if stack:
                o = stack.pop(); pairs[i] = o
        i += 1
    return pairs[end]

def strip_generics(name):
    """remove ::<...> and <...> generic argument lists (balanced), keep '<X as Y>' qualified-self untouched if at start."""
    out, i, n = [], 0, len(name)
    while i < n:
        if name.startswith('::<', i) and not name.startswith('::<impl ', i):
            # skip balanced <...>
            j = i + 3; d = 1
            while j < n and d > 0:
                if name[j] == '<': d += 1
                elif name[j] == '>' and name[j-1] != '-': d -= 1
                j += 1
            i = j
            continue
        out.append(name[i]); i += 1
    return ''.join(out)

def type_head(t):
    """'&mut traverse::Ancestors<'_, T>' -> 'Ancestors'"""
    t = t.strip()
    while True:
        if t.startswith('&'):
            t = t[1:].strip()
            if t.startswith("'"):
                t = t.split(' ', 1)[1] if ' ' in t else t
            if t.startswith('mut '):
                t = t[4:].strip()
            continue
        break
    if t.startswith('{closure@'):
        return t[:t.index('}') + 1]
    if t.startswith('[') and t.endswith(']'):
        return t
    if t == 'str': return 'str'
    # cut generics
    k = 0
    for k, c in enumerate(t):
        if c in '<(':
            t = t[:k]; break
    t = t.strip()
    if t.endswith('::'):
        t = t[:-2]
    return t.split('::')[-1]

# ---------- AST ----------
@dataclass
class Place:
    local: int
    proj: tuple  # of ('deref',) | ('field', i, ty) | ('downcast', name) | ('index', local) | ('constindex', i)

@dataclass
class Operand:
    kind: str   # 'copy' | 'move' | 'const'
    place: Any = None
    const: Any = None   # raw const text

@dataclass
class Rvalue:
    kind: str
    args: tuple = ()
    extra: Any = None

@dataclass
class Stmt:
    kind: str  # 'assign' | 'nop' | 'setdiscr'
    place: Any = None
    rv: Any = None
    raw: str = ''

@dataclass
class Term:
    kind: str
    raw: str = ''
    target: Any = None
    targets: Any = None   # for switch: list of (value|None, bb)
    operand: Any = None
    callee: str = ''
    args: tuple = ()
    dest: Any = None
    cond_expected: bool = True
    msg: str = ''

@dataclass
class Func:
    name: str
    params: list
    ret: str
    locals: dict
    blocks: dict
    debug: dict = field(default_factory=dict)
    is_const: bool = False

# ---------- place / operand parsing ----------
class P:
    def __init__(self, s):
        self.s = s; self.i = 0
    def peek(self, k=1): return self.s[self.i:self.i+k]
    def eat(self, t):
        assert self.s.startswith(t, self.i), (self.s, self.i, t)
        self.i += len(t)
    def ws(self):
        while self.i < len(self.s) and self.s[self.i] == ' ': self.i += 1

def parse_place_at(p):
    """returns Place; grammar: _N | (*place) | (place.K: type) | (place as Variant) | place[_N]"""
    p.ws()
    if p.peek() == '(':
        p.eat('(')
        if p.peek() == '*':
            p.eat('*')
            inner = parse_place_at(p)
            p.eat(')')
            pl = Place(inner.local, inner.proj + (('deref',),))
        else:
            inner = parse_place_at(p)
            if p.peek(4) == ' as ':
                p.eat(' as ')
                m = re.match(r'[A-Za-z_0-9]+', p.s[p.i:])
                p.i += m.end()
                p.eat(')')
                pl = Place(inner.local, inner.proj + (('downcast', m.group(0)),))
            elif p.peek() == '.':
                p.eat('.')
                m = re.match(r'\d+', p.s[p.i:])
                p.i += m.end()
                p.eat(': ')
                # type until matching ')'
                depth = 0; j = p.i; ang = 0
                while True:
                    c = p.s[j]
                    if c in '([{': depth += 1
                    elif c in ')]}':
                        if depth == 0: break
                        depth -= 1
                    j += 1
                ty = p.s[p.i:j]
                p.i = j
                p.eat(')')
                pl = Place(inner.local, inner.proj + (('field', int(m.group(0)), ty),))
            else:
                raise ValueError('bad place: ' + p.s)
    else:
        m = re.match(r'_(\d+)', p.s[p.i:])
        if not m: raise ValueError('bad place: ' + p.s[p.i:])
        p.i += m.end()
        pl = Place(int(m.group(1)), ())
    # postfix index
    while p.peek() == '[':
        m = re.match(r'\[_(\d+)\]', p.s[p.i:])
        if m:
            p.i += m.end()
            pl = Place(pl.local, pl.proj + (('index', int(m.group(1))),))
            continue
        m = re.match(r'\[(\d+) of (\d+)\]', p.s[p.i:])
        if m:
            p.i += m.end()
            pl = Place(pl.local, pl.proj + (('constindex', int(m.group(1))),))
            continue
        break
    return pl

def parse_place(s):
    p = P(s.strip())
    pl = parse_place_at(p)
    assert p.i == len(p.s), ('trailing in place', s, p.i)
    return pl

def parse_operand(s):
    s = s.strip()
    if s.startswith('no_retag '): s = s[9:]
    if s.startswith('copy '): return Operand('copy', parse_place(s[5:]))
    if s.startswith('move '): return Operand('move', parse_place(s[5:]))
    if s.startswith('const '): return Operand('const', const=s[6:].strip())
    return Operand('const', const=s)

BINOPS = {'Eq','Ne','Lt','Le','Gt','Ge','Add','Sub','Mul','Div','Rem','BitAnd','BitOr','BitXor','Shl','Shr',
          'AddWithOverflow','SubWithOverflow','MulWithOverflow','AddUnchecked','SubUnchecked','MulUnchecked','Offset','Cmp'}
UNOPS = {'Not','Neg','PtrMetadata'}

def parse_rvalue(s):
    s = s.strip()
    if s.startswith('no_retag '): s = s[9:]
    if s.startswith('&/*tls*/ '): return Rvalue('tls', (), s[9:])
    if s.startswith('&raw const (fake) '): return Rvalue('ref', (parse_place(s[18:]),), 'raw')
    if s.startswith('&raw const '): return Rvalue('ref', (parse_place(s[11:]),), 'raw')
    if s.startswith('&raw mut '): return Rvalue('ref', (parse_place(s[9:]),), 'rawmut')
    if s.startswith('&mut '): return Rvalue('ref', (parse_place(s[5:]),), 'mut')
    if s.startswith('&fake shallow '): return Rvalue('ref', (parse_place(s[14:]),), 'shared')
    if s.startswith('&'): return Rvalue('ref', (parse_place(s[1:]),), 'shared')
    m = re.match(r'(copy|move|const) ', s)
    if m:
        # maybe cast: 'OPERAND as TYPE (Kind)'
        mm = re.match(r'^(.*) as (.*) \(([A-Za-z]+(\(.*\))?)\)$', s)
        if mm and not s.startswith('const "'):
            try:
                op = parse_operand(mm.group(1))
                return Rvalue('cast', (op,), (mm.group(2), mm.group(3)))
            except Exception:
                pass
        return Rvalue('use', (parse_operand(s),))
    m = re.match(r'^([A-Za-z]+)\((.*)\)$', s)
    if m and m.group(1) in BINOPS:
        a, b = split_top(m.group(2))
        return Rvalue('binop', (parse_operand(a), parse_operand(b)), m.group(1))
    if m and m.group(1) in UNOPS:
        return Rvalue('unop', (parse_operand(m.group(2)),), m.group(1))
    if m and m.group(1) == 'discriminant':
        return Rvalue('discriminant', (parse_place(m.group(2)),))
    if m and m.group(1) == 'Len':
        return Rvalue('len', (parse_place(m.group(2)),))
    if m and m.group(1) == 'CopyForDeref':
        return Rvalue('use', (Operand('copy', parse_place(m.group(2))),))
    if s.startswith('(') and s.endswith(')'):
        inner = s[1:-1].strip()
        if inner.endswith(','): inner = inner[:-1]
        parts = split_top(inner) if inner else []
        return Rvalue('tuple', tuple(parse_operand(x) for x in parts))
    if s.startswith('[') and s.endswith(']'):
        inner = s[1:-1]
        if ';' in inner and len(split_top(inner, ';')) == 2:
            a, n = split_top(inner, ';')
            return Rvalue('repeat', (parse_operand(a),), n)
        return Rvalue('array', tuple(parse_operand(x) for x in split_top(inner)))
    if s.startswith('{closure@'):
        k = s.index('}') + 1
        name = s[:k]
        rest = s[k:].strip()
        fields = []
        if rest.startswith('{'):
            body = rest[1:-1].strip()
            for part in split_top(body):
                fname, val = part.split(':', 1)
                fields.append((fname.strip(), parse_operand(val)))
        return Rvalue('closure', tuple(f[1] for f in fields), (name, tuple(f[0] for f in fields)))
    # struct literal: Path { f: op, ... }
    m = re.match(r'^(.*?) \{ (.*) \}$', s)
    if m and not s.startswith('const'):
        fields = []
        for part in split_top(m.group(2)):
            fname, val = part.split(':', 1)
            fields.append((fname.strip(), parse_operand(val)))
        return Rvalue('struct', tuple(f[1] for f in fields), (m.group(1), tuple(f[0] for f in fields)))
    # Path(args) -- tuple struct or enum variant
    if s.endswith(')'):
        o = match_paren_back(s, len(s) - 1)
        path = s[:o]
        args = split_top(s[o+1:-1])
        return Rvalue('ctor', tuple(parse_operand(x) for x in args), path)
    # bare path: unit variant / unit struct
    return Rvalue('ctor', (), s)

def parse_statement(line):
    s = line.strip()
    assert s.endswith(';'), s
    s = s[:-1]
    if s in ('nop',) or re.match(r'^(StorageLive|StorageDead|FakeRead|PlaceMention|Retag|AscribeUserType|Coverage|ConstEvalCounter|Deinit)\b', s):
        return Stmt('nop', raw=s)
    m = re.match(r'^discriminant\((.*)\) = (\d+)$', s)
    if m:
        return Stmt('setdiscr', place=parse_place(m.group(1)), rv=int(m.group(2)), raw=s)
    lhs, rhs = s.split(' = ', 1)
    return Stmt('assign', place=parse_place(lhs), rv=parse_rvalue(rhs), raw=s)

def parse_targets(s):
    """'[return: bb1, unwind continue]' -> return bb or None"""
    m = re.search(r'return: bb(\d+)', s)
    return int(m.group(1)) if m else None

def parse_terminator(line):
    s = line.strip()
    assert s.endswith(';'), s
    s = s[:-1]
    if s == 'return': return Term('return', raw=s)
    if s == 'unreachable': return Term('unreachable', raw=s)
    if s.startswith('resume') or s.startswith('unwind_terminate') or s.startswith('terminate') or s.startswith('abort'):
        return Term('resume', raw=s)
    m = re.match(r'^goto -> bb(\d+)$', s)
    if m: return Term('goto', raw=s, target=int(m.group(1)))
    m = re.match(r'^switchInt\((.*)\) -> \[(.*)\]$', s)
    if m:
        op = parse_operand(m.group(1))
        tg = []
        for part in m.group(2).split(', '):
            k, bb = part.split(': ')
            tg.append((None if k == 'otherwise' else int(k), int(bb[2:])))
        return Term('switch', raw=s, operand=op, targets=tg)
    m = re.match(r'^drop\((.*)\) -> (.*)$', s)
    if m:
        return Term('drop', raw=s, dest=parse_place(m.group(1)), target=parse_targets(m.group(2)))
    if s.startswith('assert('):
        # assert(COND, "msg", args) -> [success: bbN, unwind ...]
        k = s.rindex(') -> ')
        inner = s[len('assert('):k]
        parts = split_top(inner)
        cond = parts[0]
        expected = True
        if cond.startswith('!'):
            expected = False; cond = cond[1:]
        mt = re.search(r'success: bb(\d+)', s[k:])
        return Term('assert', raw=s, operand=parse_operand(cond), cond_expected=expected,
                    msg=parts[1] if len(parts) > 1 else '', target=int(mt.group(1)))
    # call
    k = s.rfind(') -> ')
    if k >= 0 and ' = ' in s:
        head = s[:k+1]
        tail = s[k+5:]
        lhs, rhs = head.split(' = ', 1)
        o = match_paren_back(rhs, len(rhs) - 1)
        callee = rhs[:o]
        args = split_top(rhs[o+1:-1])
        return Term('call', raw=s, dest=parse_place(lhs), callee=callee.strip(),
                    args=tuple(parse_operand(a) for a in args), target=parse_targets(tail))
    raise ValueError('unknown terminator: ' + s)

def parse_mir(text):
    funcs = []
    lines = text.split('\n')
    i = 0
    while i < len(lines):
        ln = lines[i]
        m1 = re.match(r'^const ([A-Za-z_0-9:<>, ]+): ([^=]+) = const (.*);$', ln)
        if m1:
            # named constant with a literal value
            f = Func(name=m1.group(1).strip(), params=[], ret=m1.group(2).strip(), locals={0: m1.group(2).strip()}, blocks={}, is_const=True)
            f.blocks[0] = ([parse_statement('_0 = const %s;' % m1.group(3))], parse_terminator('return;'))
            funcs.append(f); i += 1; continue
        m = re.match(r'^(fn|const|static|promoted\[\d+\] in) (.*) \{$', ln)
        if m and (ln.startswith('fn ') or '::promoted[' in ln or (ln.startswith('const ') and re.match(r'^([A-Za-z_0-9:<>, ]+): (.*) =$', m.group(2)))):
            is_const = not ln.startswith('fn ')
            header = m.group(2)
            if not is_const:
                o = header.index('(') if not header.startswith('<') else None
                # find the param list: last top-level '(...)' before ' -> '
                k = header.rfind(') -> ')
                ret = header[k+5:] if k >= 0 else '()'
                hp = header[:k+1] if k >= 0 else header
                po = match_paren_back(hp, len(hp) - 1)
                name = hp[:po]
                params = []
                for part in split_top(hp[po+1:-1]):
                    mm = re.match(r'^_(\d+): (.*)$', part)
                    params.append((int(mm.group(1)), mm.group(2)))
            else:
                mm = re.match(r'^(.*::promoted\[\d+\]): (.*) =$', header) or re.match(r'^([A-Za-z_0-9:<>, ]+): (.*) =$', header)
                name, ret, params = mm.group(1), mm.group(2), []
            f = Func(name=name.strip(), params=params, ret=ret.strip(), locals={}, blocks={}, is_const=is_const)
            for (n, t) in params: f.locals[n] = t
            i += 1
            cur = None
            while not lines[i].startswith('}'):
                l = lines[i]
                ls = l.strip()
                mm = re.match(r'^let (mut )?_(\d+): (.*);$', ls)
                if mm:
                    f.locals[int(mm.group(2))] = mm.group(3)
                elif re.match(r'^bb(\d+)( \(cleanup\))?: \{$', ls):
                    cur = int(re.match(r'^bb(\d+)', ls).group(1))
                    f.blocks[cur] = []
                elif ls == '}' and cur is not None and l.startswith('    }'):
                    cur = None
                elif cur is not None and ls:
                    f.blocks[cur].append(ls)
                elif ls.startswith('debug '):
                    mm = re.match(r'^debug (\S+) => _(\d+);$', ls)
                    if mm: f.debug[mm.group(1)] = int(mm.group(2))
                i += 1
            # parse blocks lazily -> do now
            for bb, ls_ in list(f.blocks.items()):
                stmts = [parse_statement(x) for x in ls_[:-1]]
                term = parse_terminator(ls_[-1])
                f.blocks[bb] = (stmts, term)
            funcs.append(f)
        i += 1
    return funcs

if __name__ == '__main__':
    fs = parse_mir(open(sys.argv[1]).read())
    print(len(fs), 'functions parsed')
    for f in fs[:5]:
        print(f.name, f.params, '->', f.ret, len(f.blocks))
