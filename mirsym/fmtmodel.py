"""Extra builtins for strings / fmt / slices of small structs (pretty printer probe)."""
import ast, re, z3
import engine as E
from engine import *

def unquote(raw):
    """raw MIR literal '"..."' -> python str"""
    s = raw
    if s.startswith('b'): s = s[1:]
    s = re.sub(r'\\u\{([0-9a-fA-F]+)\}', lambda m: '\\U%08x' % int(m.group(1), 16), s)
    try: return ast.literal_eval(s)
    except Exception: return s.strip('"')

def pystr(v):
    assert isinstance(v, StrV), v
    if not hasattr(v, '_py'):
        pass
    return unquote(v.s) if v.s.startswith('"') or v.s.startswith('b"') else v.s

def mkstr(p): return StrV(p) if not p.startswith('"') else StrV('\x00' + p)

class SymDisplay(StrV):
    """the text `format!("{}", v)` of a symbolic integer v"""
    def __init__(self, val):
        StrV.__init__(self, '<display>'); self.val = val


class PyStr(StrV):
    """already-unquoted string"""
    pass

def sval(v):
    if isinstance(v, PyStr): return v.s
    return pystr(v)

def bi_str_is_empty(eng, st, args, d, r, callee=''): return ('value', S(len(sval(args[0])) == 0, 'bool'))
def bi_str_len(eng, st, args, d, r, callee=''): return ('value', S(len(sval(args[0]).encode()), 'usize'))
def bi_str_find(eng, st, args, d, r, callee=''):
    s = sval(args[0]); ch = args[1]
    c = chr(ch.v) if isinstance(ch, S) else sval(ch)
    k = s.find(c)
    if k < 0: return ('value', En('Option', S(0, 'isize'), {0: ()}))
    return ('value', En('Option', S(1, 'isize'), {1: (S(k, 'usize'),)}))
def bi_str_index(eng, st, args, d, r, callee=''):
    s = sval(args[0]); rng = args[1]
    k = rng.f[0].v
    if rng.ty == 'RangeTo': return ('value', PyStr(s[:k]))
    if rng.ty == 'RangeFrom': return ('value', PyStr(s[k:]))
    raise Unsupported('str index ' + rng.ty)

def out_append(st, text):
    st.out = getattr(st, 'out', ()) + (text,)

def ok_unit(): return En('Result', S(0, 'isize'), {0: (UNIT,)})
def bi_fmt_write_str(eng, st, args, d, r, callee=''):
    out_append(st, sval(args[1])); return ('value', ok_unit())
def bi_fmt_write_char(eng, st, args, d, r, callee=''):
    out_append(st, chr(args[1].v)); return ('value', ok_unit())
def bi_fmt_alternate(eng, st, args, d, r, callee=''):
    f = eng.deref(st, args[0]); return ('value', f.f[0])

def bi_arguments_new(eng, st, args, d, r, callee=''):
    return ('value', Agg('Arguments', tuple(args)))
def bi_argument_new(eng, st, args, d, r, callee=''):
    kind = 'debug' if 'new_debug' in callee else 'display'
    return ('value', Agg('Argument', (args[0], StrV(kind))))

def templates(prog):
    """format templates of the four payload modes, read from the probe functions of the shim crate's MIR"""
    if getattr(prog, '_tpl', None): return prog._tpl
    out = {}
    for name in ('fmt_tpl_display', 'fmt_tpl_display_alt', 'fmt_tpl_debug', 'fmt_tpl_debug_alt'):
        fn = prog.free.get(name)
        if fn is None: raise Unsupported('shim probe %s missing' % name)
        tpl = None
        for bb, (stmts, term) in fn.blocks.items():
            for s_ in stmts:
                if s_.kind == 'assign' and s_.rv.kind == 'use' and s_.rv.args[0].kind == 'const' and s_.rv.args[0].const.startswith('b"'):
                    tpl = s_.rv.args[0].const
        out[name[len('fmt_tpl_'):]] = tpl
    prog._tpl = out
    return out

def arguments_parts(eng, st, a):
    """Arguments value -> (template text, [(kind, value)])"""
    tpl = a.f[0]
    arr = a.f[-1]
    while isinstance(arr, Ref): arr = eng.deref(st, arr)
    items = []
    if isinstance(arr, VecV):
        for arg in arr.el[:arr.len.v]:
            p = arg.f[0]
            while isinstance(p, Ref): p = eng.deref(st, p)
            items.append((arg.f[1].s if len(arg.f) > 1 else 'display', p))
    return (tpl.s if isinstance(tpl, StrV) else None), items

def bi_formatter_write_fmt(eng, st, args, d, r, callee=''):
    """Formatter::write_fmt(f, Arguments): the sink records (template, kind, value) per argument"""
    tpl, items = arguments_parts(eng, st, args[1])
    if len(items) == 1 and isinstance(items[0][1], Opq) and getattr(eng, 'render_choice', None) is not None:
        return bi_write_fmt(eng, st, args, d, r, callee=callee)        # a payload printed straight to the Formatter: same rendering model
    for (kind, p) in items:
        if isinstance(p, Agg) and p.ty == 'NonZero': p = p.f[0]
        st.out = getattr(st, 'out', ()) + (('arg', tpl, kind, p),)
    if not items: st.out = getattr(st, 'out', ()) + (('lit', tpl),)
    return ('value', ok_unit())

RENDER_TABLE = [['a'], ['a\nb'], ['a\n\nb']]      # chunks per rendering; set by the harness
def bi_write_fmt(eng, st, args, d, r, callee=''):
    """<W as fmt::Write>::write_fmt(w, Arguments) : each argument is a payload; its rendering is chosen by rsel[payload id]"""
    w, a = args
    tpl, items = arguments_parts(eng, st, a)
    if len(items) != 1 or not isinstance(items[0][1], Opq): raise Unsupported('write_fmt with unexpected arguments')
    kind, p = items[0]
    tp = templates(eng.prog)
    alt = tpl in (tp['display_alt'], tp['debug_alt']) and tpl not in (tp['display'], tp['debug'])
    if not alt and tpl not in (tp['display'], tp['debug']): raise Unsupported('unknown format template %r' % tpl)
    st.modes = getattr(st, 'modes', ()) + ((kind, alt),)
    choice = eng.render_choice(p.e)       # z3 BV8 expr
    forks = []
    for k, chs in enumerate(RENDER_TABLE):
        # a piece is a str chunk, or ('c', ch): a single char handed to fmt::Write::write_char
        n_ = len(chs)
        strs = VecV(S(n_, 'usize'), n_, [PyStr(t if isinstance(t, str) else '') for t in chs])
        chars = VecV(S(n_, 'usize'), n_, [S(ord(t[1]) if not isinstance(t, str) else 32, 'char') for t in chs])
        isch = VecV(S(n_, 'usize'), n_, [S(not isinstance(t, str), 'bool') for t in chs])
        forks.append((choice == k, ('pieces', (strs, chars, isch))))
    return ('fork_call', forks, w)

def bi_slice_len(eng, st, args, d, r, callee=''):
    return ('value', E.vec_of(eng, st, args[0]).len)

def bi_vec_pop(eng, st, args, d, r, callee=''):
    rf = args[0]; v = E.vec_of(eng, st, rf)
    n = v.len.v
    if n == 0: return ('value', En('Option', S(0, 'isize'), {0: ()}))
    x = v.el[n - 1]
    eng.store_ref(st, rf, VecV(S(n - 1, 'usize'), v.cap, v.el))
    return ('value', En('Option', S(1, 'isize'), {1: (x,)}))

def bi_slice_range(eng, st, args, d, r, callee=''):
    rf, rng = args
    v = E.vec_of(eng, st, rf)
    n = v.len.v
    if rng.ty == 'RangeTo': lo, hi = 0, rng.f[0].v
    elif rng.ty == 'RangeFrom': lo, hi = rng.f[0].v, n
    else: lo, hi = rng.f[0].v, rng.f[1].v
    if not (lo <= hi <= n): return ('panic', 'slice index out of range')
    c = st.new_cell(VecV(S(hi - lo, 'usize'), hi - lo, v.el[lo:hi]))
    return ('value', Ref(c, ()))

def bi_slice_last(eng, st, args, d, r, callee=''):
    rf = args[0]; v = E.vec_of(eng, st, rf); n = v.len.v
    if n == 0: return ('value', En('Option', S(0, 'isize'), {0: ()}))
    return ('value', En('Option', S(1, 'isize'), {1: (Ref(rf.cell, rf.path + (('i', S(n - 1, 'usize')),)),)}))

def bi_slice_iter(eng, st, args, d, r, callee=''):
    rf = args[0]; v = E.vec_of(eng, st, rf)
    return ('value', Agg('SliceIter', (rf, S(0, 'usize'), S(v.len.v, 'usize'))))

def bi_sliceiter_next(eng, st, args, d, r, callee=''):
    itref = args[0]; it = eng.deref(st, itref)
    rf, lo, hi = it.f
    if lo.v >= hi.v: return ('value', En('Option', S(0, 'isize'), {0: ()}))
    eng.store_ref(st, itref, Agg('SliceIter', (rf, S(lo.v + 1, 'usize'), hi)))
    return ('value', En('Option', S(1, 'isize'), {1: (Ref(rf.cell, rf.path + (('i', lo),)),)}))

def bi_sliceiter_next_back(eng, st, args, d, r, callee=''):
    itref = args[0]; it = eng.deref(st, itref)
    rf, lo, hi = it.f
    if lo.v >= hi.v: return ('value', En('Option', S(0, 'isize'), {0: ()}))
    eng.store_ref(st, itref, Agg('SliceIter', (rf, lo, S(hi.v - 1, 'usize'))))
    return ('value', En('Option', S(1, 'isize'), {1: (Ref(rf.cell, rf.path + (('i', S(hi.v - 1, 'usize')),)),)}))

def bi_str_eq(eng, st, args, d, r, callee=''):
    a, b = args
    while isinstance(a, Ref): a = eng.deref(st, a)
    while isinstance(b, Ref): b = eng.deref(st, b)
    return ('value', S(sval(a) == sval(b), 'bool'))
def bi_str_ne(eng, st, args, d, r, callee=''):
    a, b = args
    while isinstance(a, Ref): a = eng.deref(st, a)
    while isinstance(b, Ref): b = eng.deref(st, b)
    return ('value', S(sval(a) != sval(b), 'bool'))
def bi_str_pred(fn):
    def f(eng, st, args, d, r, callee=''):
        a = args[0]; b = args[1]
        while isinstance(a, Ref): a = eng.deref(st, a)
        while isinstance(b, Ref): b = eng.deref(st, b)
        pat = chr(b.v) if isinstance(b, S) else sval(b)
        return ('value', S(fn(sval(a), pat), 'bool'))
    return f
def bi_str_trim(fn):
    def f(eng, st, args, d, r, callee=''):
        return ('value', PyStr(fn(sval(args[0]))))
    return f
def bi_str_split_once(eng, st, args, d, r, callee=''):
    s = sval(args[0]); b = args[1]
    pat = chr(b.v) if isinstance(b, S) else sval(b)
    k = s.find(pat)
    if k < 0: return ('value', En('Option', S(0, 'isize'), {0: ()}))
    return ('value', En('Option', S(1, 'isize'), {1: (Agg('tuple', (PyStr(s[:k]), PyStr(s[k + len(pat):]))),)}))

def bi_str_split_inclusive(eng, st, args, d, r, callee=''):
    s = sval(args[0]); b = args[1]
    pat = chr(b.v) if isinstance(b, S) else sval(b)
    parts = []; cur = ''
    i = 0
    while i < len(s):
        if s.startswith(pat, i): cur += pat; parts.append(cur); cur = ''; i += len(pat)
        else: cur += s[i]; i += 1
    if cur: parts.append(cur)
    return ('value', Agg('VecIntoIter', (VecV(S(len(parts), 'usize'), len(parts), [PyStr(p) for p in parts]), S(0, 'usize'))))

def bi_str_lines(eng, st, args, d, r, callee=''):
    parts = sval(args[0]).split('\n')
    if parts and parts[-1] == '': parts = parts[:-1]
    parts = [p[:-1] if p.endswith('\r') else p for p in parts]      # str::lines strips a trailing carriage return
    return ('value', Agg('VecIntoIter', (VecV(S(len(parts), 'usize'), len(parts), [PyStr(p) for p in parts]), S(0, 'usize'))))

def bi_slice_split_last(eng, st, args, d, r, callee=''):
    rf = args[0]; v = E.vec_of(eng, st, rf); n = v.len.v
    if n == 0: return ('value', En('Option', S(0, 'isize'), {0: ()}))
    c = st.new_cell(VecV(S(n - 1, 'usize'), n - 1, v.el[:n - 1]))
    return ('value', En('Option', S(1, 'isize'), {1: (Agg('tuple', (Ref(rf.cell, rf.path + (('i', S(n - 1, 'usize')),)), Ref(c, ()))),)}))

def bi_slice_split_first(eng, st, args, d, r, callee=''):
    rf = args[0]; v = E.vec_of(eng, st, rf); n = v.len.v
    if n == 0: return ('value', En('Option', S(0, 'isize'), {0: ()}))
    c = st.new_cell(VecV(S(n - 1, 'usize'), n - 1, v.el[1:n]))
    return ('value', En('Option', S(1, 'isize'), {1: (Agg('tuple', (Ref(rf.cell, rf.path + (('i', S(0, 'usize')),)), Ref(c, ()))),)}))

def bi_slice_is_empty(eng, st, args, d, r, callee=''):
    return ('value', S(E.vec_of(eng, st, args[0]).len.v == 0, 'bool'))

def bi_slice_first(eng, st, args, d, r, callee=''):
    rf = args[0]; v = E.vec_of(eng, st, rf)
    if v.len.v == 0: return ('value', En('Option', S(0, 'isize'), {0: ()}))
    return ('value', En('Option', S(1, 'isize'), {1: (Ref(rf.cell, rf.path + (('i', S(0, 'usize')),)),)}))

def _as_str_value(eng, st, a):
    """&str / &String / String argument -> StrV"""
    v = a
    while isinstance(v, Ref): v = eng.deref(st, v)
    if isinstance(v, Agg) and v.ty == 'String': v = v.f[0]
    return v if isinstance(v, StrV) else a

def strargs(fn):
    def w(eng, st, args, d, r, callee=''):
        return fn(eng, st, [_as_str_value(eng, st, a) for a in args], d, r, callee=callee)
    return w

# ---- String as a growable text cell: Agg('String', (PyStr,))
def _string_ref(args):
    r = args[0]
    assert isinstance(r, Ref), r
    return r
def bi_string_new(eng, st, args, d, r, callee=''): return ('value', Agg('String', (PyStr(''),)))
def bi_string_push_str(eng, st, args, d, r, callee=''):
    rf = _string_ref(args); cur = eng.deref(st, rf)
    add = _as_str_value(eng, st, args[1])
    text = chr(add.v) if isinstance(add, S) else sval(add)
    eng.store_ref(st, rf, Agg('String', (PyStr(sval(cur.f[0]) + text),)))
    return ('value', ok_unit() if callee.endswith('write_str') or callee.endswith('write_char') else UNIT)
def bi_string_deref(eng, st, args, d, r, callee=''):
    rf = _string_ref(args)
    return ('value', Ref(rf.cell, rf.path + (('f', 0),)))
def bi_string_len(eng, st, args, d, r, callee=''): return ('value', S(len(sval(_as_str_value(eng, st, args[0])).encode()), 'usize'))
def bi_string_is_empty(eng, st, args, d, r, callee=''): return ('value', S(len(sval(_as_str_value(eng, st, args[0]))) == 0, 'bool'))
def bi_string_clear(eng, st, args, d, r, callee=''):
    eng.store_ref(st, _string_ref(args), Agg('String', (PyStr(''),))); return ('value', UNIT)

def bi_write_char_default(eng, st, args, d, r, callee=''):
    """fmt::Write::write_char default method: self.write_str(c.encode_utf8(..))"""
    w, c = args
    head = eng.runtime_head(w, st)
    cands = [f for (t, f) in eng.prog.methods.get((head, 'write_str'), [])]
    text = PyStr(chr(c.v))
    if cands:
        eng.push_call(st, cands[0], [w, text], d, r); return ('pushed', None)
    b = E.BUILTIN_METHODS.get((head, 'write_str'))
    if b: return b(eng, st, [w, text], d, r, callee='write_str')
    raise Unsupported('write_char on ' + str(head))

def bi_str_trim_matches(which):
    def fn(eng, st, args, d, r, callee=''):
        s = sval(args[0]); b = args[1]
        pat = chr(b.v) if isinstance(b, S) else sval(b)
        if not pat: return ('value', PyStr(s))
        if which in ('end', 'both'):
            while s.endswith(pat): s = s[:-len(pat)]
        if which in ('start', 'both'):
            while s.startswith(pat): s = s[len(pat):]
        return ('value', PyStr(s))
    return fn
def bi_str_strip(which):
    def fn(eng, st, args, d, r, callee=''):
        s = sval(args[0]); b = args[1]
        pat = chr(b.v) if isinstance(b, S) else sval(b)
        ok = s.startswith(pat) if which == 'prefix' else s.endswith(pat)
        if not ok: return ('value', En('Option', S(0, 'isize'), {0: ()}))
        rest = s[len(pat):] if which == 'prefix' else s[:len(s) - len(pat)]
        return ('value', En('Option', S(1, 'isize'), {1: (PyStr(rest),)}))
    return fn
def bi_str_rfind(eng, st, args, d, r, callee=''):
    s = sval(args[0]); b = args[1]
    pat = chr(b.v) if isinstance(b, S) else sval(b)
    k = s.rfind(pat)
    if k < 0: return ('value', En('Option', S(0, 'isize'), {0: ()}))
    return ('value', En('Option', S(1, 'isize'), {1: (S(len(s[:k].encode()), 'usize'),)}))
def bi_str_split_at(eng, st, args, d, r, callee=''):
    s = sval(args[0]).encode(); k = args[1].v
    return ('value', Agg('tuple', (PyStr(s[:k].decode()), PyStr(s[k:].decode()))))

def bi_int_to_string(eng, st, args, d, r, callee=''):
    v = args[0]
    while isinstance(v, Ref): v = eng.deref(st, v)
    if isinstance(v, Agg) and v.ty == 'NonZero': v = v.f[0]
    if isinstance(v, S) and v.conc(): return ('value', Agg('String', (PyStr(str(v.v)),)))
    if isinstance(v, S): return ('value', Agg('String', (SymDisplay(v),)))
    raise Unsupported('to_string of %r' % (v,))

def bi_formatter_pad(eng, st, args, d, r, callee=''):
    """Formatter::pad(s): honours the width / precision of the formatter (unlike write!(f, "{}", x), which formats x with a fresh spec)"""
    fm = eng.deref(st, args[0])
    s = _as_str_value(eng, st, args[1])
    hw = fm.f[1] if len(fm.f) > 1 else S(False, 'bool')
    hp = fm.f[2] if len(fm.f) > 2 else S(False, 'bool')
    st.out = getattr(st, 'out', ()) + (('pad', s, hw, hp),)
    return ('value', ok_unit())

def install():
    B = E.BUILTIN_METHODS
    B[('Formatter', 'pad')] = bi_formatter_pad
    for h_ in ('usize', 'NonZero', 'u64', 'u32', 'i16'): B[(h_, 'to_string')] = bi_int_to_string
    B[('ToString', 'to_string')] = bi_int_to_string
    B[('str', 'trim_end_matches')] = bi_str_trim_matches('end'); B[('str', 'trim_start_matches')] = bi_str_trim_matches('start'); B[('str', 'trim_matches')] = bi_str_trim_matches('both')
    B[('str', 'strip_prefix')] = bi_str_strip('prefix'); B[('str', 'strip_suffix')] = bi_str_strip('suffix'); B[('str', 'rfind')] = bi_str_rfind
    B[('str', 'split_at')] = bi_str_split_at
    B[('String', 'new')] = bi_string_new; B[('String', 'push_str')] = bi_string_push_str; B[('String', 'push')] = bi_string_push_str
    B[('String', 'write_str')] = bi_string_push_str; B[('String', 'write_char')] = bi_string_push_str
    B[('String', 'deref')] = bi_string_deref; B[('String', 'as_str')] = bi_string_deref; B[('String', 'len')] = bi_string_len
    B[('String', 'is_empty')] = bi_string_is_empty; B[('String', 'clear')] = bi_string_clear; B[('String', 'with_capacity')] = bi_string_new
    B[('Write', 'write_char')] = bi_write_char_default
    B[('str', 'split_inclusive')] = bi_str_split_inclusive; B[('str', 'lines')] = bi_str_lines; B[('str', 'clone')] = E.bi_clone
    B[('Vec', 'last_mut')] = bi_slice_last
    B[('str', 'eq')] = bi_str_eq; B[('str', 'ne')] = bi_str_ne
    B[('str', 'ends_with')] = bi_str_pred(lambda s, p: s.endswith(p)); B[('str', 'starts_with')] = bi_str_pred(lambda s, p: s.startswith(p))
    B[('str', 'contains')] = bi_str_pred(lambda s, p: p in s)
    B[('str', 'trim_end')] = bi_str_trim(lambda s: s.rstrip()); B[('str', 'trim_start')] = bi_str_trim(lambda s: s.lstrip()); B[('str', 'trim')] = bi_str_trim(lambda s: s.strip())
    B[('str', 'split_once')] = bi_str_split_once
    B[('str', 'is_empty')] = bi_str_is_empty; B[('str', 'len')] = bi_str_len; B[('str', 'find')] = bi_str_find
    B[('str', 'index')] = bi_str_index
    for k_ in list(B):
        if k_[0] == 'str' and k_[1] != 'clone' and not getattr(B[k_], '_wrapped', False):
            B[k_] = strargs(B[k_]); B[k_]._wrapped = True
    B[('Formatter', 'write_str')] = strargs(bi_fmt_write_str); B[('Formatter', 'write_char')] = bi_fmt_write_char
    B[('Formatter', 'alternate')] = bi_fmt_alternate
    B[('Arguments', 'new')] = bi_arguments_new; B[('Argument', 'new_display')] = bi_argument_new; B[('Argument', 'new_debug')] = bi_argument_new
    B[('Write', 'write_fmt')] = bi_write_fmt; B[('Formatter', 'write_fmt')] = bi_formatter_write_fmt
    for h in ('[IndentedBlockState]', '[&str]'):
        B[(h, 'len')] = bi_slice_len; B[(h, 'last')] = bi_slice_last; B[(h, 'last_mut')] = bi_slice_last
        B[(h, 'iter')] = bi_slice_iter; B[(h, 'index')] = bi_slice_range; B[(h, 'into_iter')] = bi_slice_iter
        B[(h, 'split_last')] = bi_slice_split_last; B[(h, 'split_first')] = bi_slice_split_first; B[(h, 'is_empty')] = bi_slice_is_empty; B[(h, 'first')] = bi_slice_first
    B[('Range', 'into_iter')] = E.bi_identity
