"""C13 (capacity part): Kani/CBMC on the real crate + real std::vec::Vec. Runs `cargo kani` on /verif/kani."""
import os, re, subprocess, time
from iters import new_result

VERIF = os.path.dirname(os.path.dirname(os.path.abspath(__file__)))


def run_kani_job(prog, job):
    t0 = time.time()
    res = new_result(job)
    env = dict(os.environ); env['CARGO_NET_OFFLINE'] = 'true'; env.pop('RUSTFLAGS', None)
    td = os.path.join(VERIF, 'kani', 'target')
    try:
        p = subprocess.run(['cargo', 'kani', '--target-dir', td, '--output-format', 'terse'], cwd=os.path.join(VERIF, 'kani'), env=env,
                           stdout=subprocess.PIPE, stderr=subprocess.STDOUT, text=True, timeout=job.get('timeout', 1500) - 30)
        out = p.stdout
    except subprocess.TimeoutExpired:
        res['timeout'] = True; return res
    harn = re.findall(r'Checking harness (\S+?)\.\.\.(?:.|\n)*?VERIFICATION:- (\w+)', out)
    m = re.search(r'Complete - (\d+) successfully verified harnesses, (\d+) failures, (\d+) total', out)
    if not m or not harn:
        res['error'] = 'cargo kani did not complete:\n' + out[-1500:]; return res
    res['paths'] = int(m.group(3)); res['steps'] = int(m.group(3))
    res['obligations'] = int(m.group(3)); res['discharged'] = int(m.group(1)); res['nontrivial'] = int(m.group(1))
    for (h, verdict) in harn:
        res['outcomes'][h + ':' + verdict] = 1
        if verdict != 'SUCCESSFUL':
            res['violations'].append({'kind': 'custom', 'module': 'kanileaf', 'confirm': 'confirm', 'checks': ['C13.kani.' + h.split('::')[-1]], 'op': 'kani', 'N': 3,
                                      'cfg': 'dev', 'pre': None, 'role': 'kani', 'args': {'harness': h}})
    res['samples'].append({'engine': 'Kani 0.68 / CBMC', 'harnesses': [h for (h, _) in harn], 'bounds': 'n, k <= 4; 0-3 nodes; unwind 6'})
    res['wall'] = time.time() - t0
    return res


def confirm(prop, v):
    """native: with_capacity(n) / reserve(k) for all n, k <= 4 and 0-3 nodes"""
    import replay
    bad = []
    for profile in ('dev', 'release'):
        for n in range(5):
            r = replay.run_script(['arena_with_capacity %d' % n, 'capacity_ge %d' % n, 'count'], profile)
            if r.get(1, ('', ''))[1].strip() != 'true' or r.get(2, ('', ''))[1].strip() != '0': bad.append('with_capacity(%d): %s' % (n, r))
        for c in range(4):
            for k in range(5):
                lines = ['new n%d %d' % (i, 10 + i) for i in range(c)] + ['reserve %d' % k, 'capacity_ge %d' % (c + k), 'count'] + ['get_data n%d' % i for i in range(c)]
                r = replay.run_script(lines, profile)
                exp = ['true', str(c)] + [str(10 + i) for i in range(c)]
                got = [r.get(c + 1 + j, ('', ''))[1].strip() for j in range(len(exp))]
                if got != exp: bad.append('reserve(%d) with %d nodes: %s' % (k, c, got))
    return ('reproduced' if bad else 'not_reproduced'), {'bad': bad[:6]}
