"""One inductive step of a mutator from an arbitrary INV state: exploration + named obligations."""
import time, json, hashlib
import z3
from engine import *
from symarena import *
import specs

UNARY = ('detach', 'remove', 'remove_subtree')
CHECKED = ('checked_append', 'checked_prepend', 'checked_insert_after', 'checked_insert_before')
UNCHECKED = ('append', 'prepend', 'insert_after', 'insert_before')
INSERTS = CHECKED + UNCHECKED
MUTATORS = ('new_node', 'append_value') + UNARY + INSERTS + ('clear',)
ERR_SELF = {'append': 'AppendSelf', 'prepend': 'PrependSelf', 'insert_after': 'InsertAfterSelf', 'insert_before': 'InsertBeforeSelf'}


def base_op(op): return op[len('checked_'):] if op.startswith('checked_') else op


def find_fn(prog, head, meth):
    c = prog.methods.get((head, meth), [])
    c = [f for (t, f) in c if t is None or t == head] or [f for (t, f) in c]
    if not c: raise Unsupported('function %s::%s not found in MIR' % (head, meth))
    return c[0]


def op_fn(prog, op):
    if op in ('new_node', 'clear'): return find_fn(prog, 'Arena', op)
    return find_fn(prog, 'NodeId', op)


class Ctx:
    """symbolic pre-state + arguments for one mutator job"""
    def __init__(self, prog, op, N, fix_t=None, fix_x=None, max_steps=None, strict_removed=True, embedded=False):
        self.prog, self.op, self.N = prog, op, N
        self.embedded = embedded
        self.eng = Engine(prog, max_steps=max_steps or (4000 + 3000 * N))
        self.A = SymArena(N)
        for c in self.A.inv(strict_removed=strict_removed): self.eng.solver.add(c)
        A = self.A
        if embedded:
            # the N modelled slots sit at symbolic positions of a longer arena whose other slots are live nodes no link leads to
            import iters
            for c in A.embed(iters.EMBED_MAXLEN): self.eng.solver.add(c)
            self.eng.havoc_elem = A.havoc_node
            self.prefer = [z3.ULT(A.at[-1], 200), z3.ULE(A.vlen, A.at[-1] + 2)]
        self.t = z3.BitVec('t', 64) if fix_t is None else BV64(fix_t)
        self.x = z3.BitVec('x', 64) if fix_x is None else BV64(fix_x)
        self.tg = z3.BitVec('tg', 16); self.xg = z3.BitVec('xg', 16)
        self.newdata = z3.BitVec('newdata', 8)
        s = self.eng.solver
        self.uses_t = op in INSERTS or op == 'append_value'
        self.uses_x = op in INSERTS or op in UNARY
        if self.uses_t: s.add(z3.UGE(self.t, 1), z3.ULE(self.t, N))
        if self.uses_x: s.add(z3.UGE(self.x, 1), z3.ULE(self.x, N))
        live = [A.live(i) for i in range(N)]
        self.t_live = sel(live, self.t) if (self.uses_t and N) else z3.BoolVal(True)
        self.x_live = sel(live, self.x) if (self.uses_x and N) else z3.BoolVal(True)
        if N:
            st_t = sel(A.stamp, self.t); st_x = sel(A.stamp, self.x)
            # id of a removed slot: any stamp that was issued for the slot before (0 <= g <= -(stamp+1)), or the id that the arena
            # itself reports for the removed node (get_node_id / iter on a removed node carry the slot's current, negative stamp)
            if self.uses_t: s.add(z3.Implies(z3.Not(self.t_live), z3.Or(z3.And(self.tg >= 0, self.tg <= -(st_t + 1)), self.tg == st_t)))
            if self.uses_x: s.add(z3.Implies(z3.Not(self.x_live), z3.Or(z3.And(self.xg >= 0, self.xg <= -(st_x + 1)), self.xg == st_x)))
            self.id_t = mk_id(A.to_real(self.t), z3.If(self.t_live, st_t, self.tg))
            self.id_x = mk_id(A.to_real(self.x), z3.If(self.x_live, st_x, self.xg))
        if op in UNARY: s.add(self.x_live)       # valid call: the node is live
        self.st = State()
        self.acell = self.st.new_cell(A.value(embedded=True, free_inside=True) if embedded else A.value())
        self.pre = View(A.value())
        f = op_fn(prog, op)
        aref = Ref(self.acell, ())
        if op == 'new_node': args = [aref, Opq(self.newdata)]
        elif op == 'clear': args = [aref]
        elif op == 'append_value': args = [self.id_t, Opq(self.newdata), aref]
        elif op in UNARY: args = [self.id_x, aref]
        else: args = [self.id_t, self.id_x, aref]
        self.eng.push_call(self.st, f, args, None, None)

    def pre_sat(self):
        return self.eng.solver.check() == z3.sat

    def explore(self):
        t0 = time.time()
        self.outs = self.eng.run(self.st)
        self.t_explore = time.time() - t0
        return self.outs

    def args_dict(self, m):
        def ev(e):
            v = m.eval(e, model_completion=True)
            return z3.is_true(v) if z3.is_bool(v) else v.as_long()
        def s16(v): return v - 65536 if v >= 32768 else v
        d = {}
        if self.uses_t:
            d['t'] = ev(self.t); d['t_stamp'] = s16(ev(self.id_t.f[1].f[0].v))
        if self.uses_x:
            d['x'] = ev(self.x); d['x_stamp'] = s16(ev(self.id_x.f[1].f[0].v))
        if self.op in ('new_node', 'append_value'): d['data'] = ev(self.newdata)
        return d


def result_class(op, o):
    """classify an outcome: 'ok' | 'err' | 'panic' | 'bound' | other; and the error variant term if any"""
    if o.kind == 'return':
        v = o.value
        if isinstance(v, En) and v.ty == 'Result':
            return 'result', v
        return 'ok', v
    return o.kind, None


def err_variant_names():
    return ENUMS.get('NodeError', [])


class Case:
    """one outcome of one mutator call, symbolic (from a path) or concrete (from a native replay)"""
    pass


def case_from_outcome(ctx, o):
    c = Case()
    c.op, c.N, c.pre, c.t, c.x = ctx.op, ctx.N, ctx.pre, ctx.t, ctx.x
    c.t_live, c.x_live, c.newdata = ctx.t_live, ctx.x_live, ctx.newdata
    c.kind, rv = result_class(ctx.op, o)
    c.msg = o.msg or ''
    c.post = View(o.state.store[ctx.acell], unmap=(ctx.A if getattr(ctx, 'embedded', False) else None)) if c.kind not in ('bound',) else None
    c.is_err = c.err_disc = c.ridx = c.rst = None
    if c.kind == 'result':
        c.is_err = zb(S(rv.d.v, 'isize')) == 1
        if 1 in rv.pay:
            c.err_disc = zb(S(rv.pay[1][0].d.v, 'isize'))
    elif c.kind == 'ok' and ctx.op in ('new_node', 'append_value'):
        c.ridx = zb(rv.f[0].f[0]); c.rst = zb(rv.f[1].f[0])
    c.drops = o.state.drops
    return c


def case_from_replay(viol, rep):
    """concrete Case from a native run (replay.replay_mutator output); None if it cannot be interpreted"""
    import re as _re
    c = Case()
    op = viol['op']; pre = viol['pre']; args = viol['args']
    c.op, c.N = op, len(pre['slots'])
    c.pre = View.from_dict(pre)
    c.t = BV64(args.get('t', 0)); c.x = BV64(args.get('x', 0))
    c.t_live = z3.BoolVal(pre['slots'][args['t'] - 1]['stamp'] >= 0) if 't' in args else z3.BoolVal(True)
    c.x_live = z3.BoolVal(pre['slots'][args['x'] - 1]['stamp'] >= 0) if 'x' in args else z3.BoolVal(True)
    c.newdata = BV8(args.get('data', 0))
    c.msg = rep['result']
    c.is_err = c.err_disc = c.ridx = c.rst = None
    st = rep['status']
    if st == 'TIMEOUT':
        c.kind = 'bound'; c.post = None; c.drops = []
        return c
    if rep['post'] is None: return None
    c.post = View.from_dict(rep['post'])
    c.drops = [(True, BV8(d)) for d in (rep['drops'] or [])]
    if st == 'PANIC': c.kind = 'panic'
    elif st == 'OK':
        r = rep['result']
        if op in CHECKED:
            c.kind = 'result'
            c.is_err = z3.BoolVal(r.startswith('Err'))
            if r.startswith('Err'):
                nm = r[4:-1]
                names = err_variant_names()
                c.err_disc = BV64(names.index(nm)) if nm in names else BV64(255)
        else:
            c.kind = 'ok'
            if op in ('new_node', 'append_value'):
                m = _re.match(r'NodeId\{index1:(\d+),stamp:NodeStamp\((-?\d+)\)\}', r)
                if not m: return None
                c.ridx = BV64(int(m.group(1))); c.rst = BV16(int(m.group(2)))
    else:
        return None
    return c


def mutator_obligations(c):
    """all named obligations for one outcome; returns (list of (name, formula), info dict)"""
    op, pre, N, post = c.op, c.pre, c.N, c.post
    t, x = c.t, c.x
    ob = []
    b = base_op(op)
    T_, F_ = z3.BoolVal(True), z3.BoolVal(False)
    kind = c.kind
    info = {'kind': kind, 'msg': c.msg[:100]}
    if kind == 'bound':
        return [('C02.terminates', F_)], info
    if kind in ('unreachable', 'dead'):
        return [('C05.no_unreachable', F_)], info
    # ---- INV(post) on every path, including Err and panic points
    ob += inv_all(post)
    # ---- who may panic
    if op in CHECKED or op in UNARY or op in ('new_node', 'clear'):
        if kind == 'panic': ob.append(('C05.no_panic', F_))
    if op in ('remove', 'remove_subtree') and kind == 'panic':
        ob.append(('C04.completes_on_live_node', F_))        # the property says what remove does to a live node: panicking is not it
    if op in INSERTS:
        imp = specs.impossible(pre, t, x)
        removed_arg = z3.Or(z3.Not(c.t_live), z3.Not(c.x_live))
        if kind == 'result':
            is_err = c.is_err
            is_ok = z3.Not(is_err)
            ob.append(('C05.err_iff_impossible', is_err == imp))
            ob.append(('C12.removed_refused', z3.Implies(removed_arg, is_err)))
            if c.err_disc is not None:
                names = err_variant_names()
                anc = z3.And(c.t_live, c.x_live, t != x, is_ancestor_or_self(pre, x, t))
                known = F_
                for k, nm in enumerate(names):
                    if nm.endswith('Self'): applies = z3.And(t == x, z3.BoolVal(nm == ERR_SELF.get(b)))
                    elif nm == 'Removed': applies = removed_arg
                    elif nm.endswith('Ancestor'): applies = anc
                    else: applies = F_
                    ob.append(('C05.reason_applies[%s]' % nm, z3.Implies(z3.And(is_err, c.err_disc == k), applies)))
                    known = z3.Or(known, c.err_disc == k)
                ob.append(('C05.reason_known', z3.Implies(is_err, known)))
            for (n_, f_) in specs.arena_equal(pre, post, 'C05.err_atomic'):
                ob.append((n_, z3.Implies(is_err, f_)))
            # C12: an insert that involves a removed node is refused WITHOUT changing the arena
            for (n_, f_) in specs.arena_equal(pre, post, 'C12.refusal_leaves_arena_unchanged'):
                ob.append((n_, z3.Implies(z3.And(is_err, removed_arg), f_)))
            for (n_, f_) in specs.spec_insert(b, pre, post, t, x) + specs.frame_identity(pre, post) + specs.freelist_frame(pre, post):
                ob.append((n_, z3.Implies(is_ok, f_)))
            if op in UNCHECKED: ob.append(('C05.unchecked_result', F_))
        elif kind == 'ok':      # unchecked form returned ()
            ob.append(('C05.unchecked_ok_iff_possible', z3.Not(imp)))
            ob.append(('C12.removed_refused', z3.Not(removed_arg)))
            ob += specs.spec_insert(b, pre, post, t, x) + specs.frame_identity(pre, post) + specs.freelist_frame(pre, post)
        elif kind == 'panic':
            if op in UNCHECKED:
                ob.append(('C05.unchecked_panic_iff_impossible', imp))
                ob += specs.arena_equal(pre, post, 'C05.panic_atomic')
                for (n_, f_) in specs.arena_equal(pre, post, 'C12.refusal_leaves_arena_unchanged'):
                    ob.append((n_, z3.Implies(removed_arg, f_)))
    elif op == 'detach':
        if kind == 'ok':
            ob += specs.spec_detach(pre, post, x) + specs.frame_identity(pre, post) + specs.freelist_frame(pre, post)
    elif op == 'remove':
        if kind == 'ok':
            ob += specs.spec_remove(pre, post, x)
            ob += specs.frame_identity(pre, post, changed_live=lambda i: x == i + 1)
            ob += alloc_free_spec(pre, post, [x == i + 1 for i in range(N)])
    elif op == 'remove_subtree':
        if kind == 'ok':
            mem = specs.subtree_member(pre, x)
            ob += specs.spec_remove_subtree(pre, post, x)
            ob += specs.frame_identity(pre, post, changed_live=lambda i: mem[i])
            ob += alloc_free_spec(pre, post, mem)
    elif op == 'new_node':
        if kind == 'ok':
            ob += alloc_spec(c, pre, post, None)
    elif op == 'append_value':
        if kind == 'ok':
            ob.append(('C12.append_value_removed_parent_panics', c.t_live))
            ob += alloc_spec(c, pre, post, t)
        elif kind == 'panic':
            ob.append(('C05.no_panic', z3.Not(c.t_live)))
            ob += specs.arena_equal(pre, post, 'C12.append_value_panic_atomic')
    elif op == 'clear':
        if kind == 'ok':
            ob.append(('C13.clear_empty', T_ if post.N == 0 else F_))
            ob.append(('C13.clear_free_ends', z3.And(z3.Not(post.ff_some), z3.Not(post.lf_some))))
    # ---- drops (C08): each payload dropped exactly once iff its node was live and is gone
    if kind == 'ok' or kind == 'result':
        ob += drop_obligations(c, pre, post)
    return ob, info


def alloc_free_spec(pre, post, freed):
    """remove / remove_subtree: count unchanged; the freed slots are exactly `freed` and are marked free. Which slots are on
    the free list afterwards follows from INV(post) (exactly the removed, reusable ones); the *order* of the list is not
    part of any property and is deliberately not constrained (a LIFO list would be as good as the FIFO one)."""
    N = pre.N
    out = [('C07.count_unchanged_on_free', z3.BoolVal(post.N == N))]
    if post.N != N: return out
    for i in range(N):
        out.append(('C07.freed_is_free[%d]' % (i + 1), z3.Implies(freed[i], z3.And(z3.Not(post.live(i)), z3.Not(post.is_data[i])))))
        # generation bookkeeping: a freed slot remembers the generation it was freed at (stamp s -> -s-1), so that
        # the next generation is strictly larger and a slot freed at the last generation (32767) is retired (i16::MIN)
        out.append(('C06.freed_keeps_generation[%d]' % (i + 1), z3.Implies(freed[i], post.stamp[i] == -pre.stamp[i] - 1)))
        # a slot that was already free stays free and keeps its generation
        out.append(('C07.free_slots_stay_free[%d]' % (i + 1), z3.Implies(z3.Not(pre.live(i)), z3.And(z3.Not(post.live(i)), post.stamp[i] == pre.stamp[i]))))
    return out


def alloc_spec(ctx, pre, post, parent):
    """new_node / append_value returned id rv"""
    N = pre.N
    T_, F_ = z3.BoolVal(True), z3.BoolVal(False)
    out = []
    ridx, rst = ctx.ridx, ctx.rst
    have_free = pre.ff_some
    grew = post.N == N + 1
    out.append(('C07.grow_iff_no_free', have_free == z3.BoolVal(not grew)))
    out.append(('C07.count_delta', z3.BoolVal(post.N in (N, N + 1))))
    if post.N not in (N, N + 1): return out
    # returned slot: was not live, is live now, carries the returned stamp, payload = the new value, no links (unless appended)
    waslive = [pre.live(i) for i in range(N)] + [F_] * (post.N - N)
    out.append(('C07.returned_in_range', z3.And(z3.UGE(ridx, 1), z3.ULE(ridx, post.N))))
    out.append(('C07.returned_was_free', z3.Not(sel(waslive, ridx))))
    if grew: out.append(('C07.returned_is_new_slot', ridx == N + 1))
    else:
        # any slot of the free list will do (the order of reuse is not part of the property)
        onl_pre = [z3.And(z3.Not(pre.live(i)), pre.stamp[i] > I16MIN) for i in range(N)]
        out.append(('C07.returned_was_free_listed', sel(onl_pre, ridx) if N else F_))
    out.append(('C07.returned_live', sel([post.live(i) for i in range(post.N)], ridx)))
    out.append(('C06.returned_stamp_current', sel(post.stamp, ridx) == rst))
    out.append(('C08.new_payload_stored', z3.And(sel(post.is_data, ridx), sel(post.data, ridx) == ctx.newdata)))
    if not grew and N:
        old = sel(pre.stamp, ridx)
        out.append(('C06.recycled_stamp_fresh', z3.And(rst > -(old + 1), rst >= 0)))
    elif grew:
        out.append(('C06.new_slot_stamp_live', rst >= 0))
    for L in LINKS:
        if parent is not None and L in ('parent', 'prev'): continue
        out.append(('C12.recycled_no_links[%s]' % L, z3.Not(sel(post.some[L], ridx))))
    # every other slot untouched
    for i in range(N):
        other = ridx != i + 1
        if parent is None:
            for L in LINKS:
                out.append(('C07.others_untouched[%d.%s]' % (i + 1, L), z3.Implies(other, z3.And(post.some[L][i] == pre.some[L][i],
                            z3.Implies(pre.some[L][i], z3.And(post.idx[L][i] == pre.idx[L][i], post.lst[L][i] == pre.lst[L][i]))))))
        out.append(('C06.stamp_frame[%d]' % (i + 1), z3.Implies(other, post.stamp[i] == pre.stamp[i])))
        out.append(('C08.payload_frame[%d]' % (i + 1), z3.Implies(z3.And(other, pre.live(i)), z3.And(post.is_data[i], post.data[i] == pre.data[i]))))
        out.append(('C07.other_free_slots_stay_free[%d]' % (i + 1), z3.Implies(z3.And(other, z3.Not(pre.live(i))), z3.And(z3.Not(post.is_data[i]), z3.Not(post.live(i))))))
    if parent is not None:
        out += specs.spec_append_new(pre, post, parent, ridx)
    return out


def drop_obligations(ctx, pre, post):
    out = []
    A = pre
    N = ctx.N
    drops = ctx.drops
    # payload identities pairwise distinct (identity is what the ghost drop log records)
    livedata = [z3.If(A.live(i), z3.ZeroExt(8, A.data[i]), z3.BitVecVal(256 + i, 16)) for i in range(N)] + [z3.ZeroExt(8, ctx.newdata)]
    distinct = z3.Distinct(*livedata) if N + 1 > 1 else z3.BoolVal(True)
    for i in range(N):
        cnt = sum([z3.If(z3.And(zbool(c), e == A.data[i]), 1, 0) for (c, e) in drops], z3.IntVal(0))
        if ctx.op == 'clear' or post.N <= i: gone = A.live(i)
        else: gone = z3.And(A.live(i), z3.Not(post.live(i)))
        cnt = z3.If(A.live(i), cnt, z3.IntVal(0))
        out.append(('C08.drop_once[%d]' % (i + 1), z3.Implies(distinct, cnt == z3.If(gone, 1, 0))))
    if ctx.op in ('new_node', 'append_value'):
        cnt = sum([z3.If(z3.And(zbool(c), e == ctx.newdata), 1, 0) for (c, e) in drops], z3.IntVal(0))
        out.append(('C08.new_payload_not_dropped', z3.Implies(distinct, cnt == 0)))
    return out


# -----------------------------------------------------------------------------------------------
# named coverage situations (vacuity witnesses)

def situations(ctx):
    A, pre, t, x, N = ctx.A, ctx.pre, ctx.t, ctx.x, ctx.N
    op = ctx.op
    w = {}
    if N == 0: return w
    T_ = z3.BoolVal(True)
    anyrecycled = z3.Or(*[z3.And(A.live(i), A.stamp[i] > 0) for i in range(N)])
    nfree = sum([z3.If(z3.And(z3.Not(A.live(i)), A.stamp[i] > I16MIN), 1, 0) for i in range(N)], z3.IntVal(0))
    w['recycled_slot_present'] = anyrecycled
    w['two_or_more_free'] = nfree >= 2 if N >= 2 else None
    w['retired_slot_present'] = z3.Or(*[A.stamp[i] == I16MIN for i in range(N)])
    w['stamp_at_max'] = z3.Or(*[A.stamp[i] == 32767 for i in range(N)])
    if ctx.uses_x:
        xs = lambda L: sel(pre.some[L], x)
        w['x_first_child'] = z3.And(xs('parent'), z3.Not(xs('prev')), xs('next'))
        w['x_last_child'] = z3.And(xs('parent'), xs('prev'), z3.Not(xs('next')))
        w['x_middle_child'] = z3.And(xs('parent'), xs('prev'), xs('next')) if N >= 4 else None
        w['x_only_child'] = z3.And(xs('parent'), z3.Not(xs('prev')), z3.Not(xs('next')))
        w['x_toplevel_chain'] = z3.And(z3.Not(xs('parent')), z3.Or(xs('prev'), xs('next')))
        w['x_has_children'] = xs('first')
        w['x_two_children_and_siblings'] = z3.And(xs('first'), sel(pre.idx['first'], x) != sel(pre.idx['last'], x), z3.Or(xs('prev'), xs('next'))) if N >= 4 else None
    if ctx.uses_t and ctx.uses_x:
        ts = lambda L: sel(pre.some[L], t)
        both = z3.And(ctx.t_live, ctx.x_live, t != x)
        w['same_node'] = (t == x)
        w['t_removed'] = z3.Not(ctx.t_live)
        w['x_removed'] = z3.Not(ctx.x_live)
        w['x_removed_id_from_arena'] = z3.And(z3.Not(ctx.x_live), ctx.xg < 0)
        w['t_removed_id_from_arena'] = z3.And(z3.Not(ctx.t_live), ctx.tg < 0)
        w['x_ancestor_of_t'] = z3.And(both, is_ancestor_or_self(pre, x, t))
        w['x_grandparent_of_t'] = z3.And(both, ts('parent'), sel(pre.some['parent'], sel(pre.idx['parent'], t)),
                                         sel(pre.idx['parent'], sel(pre.idx['parent'], t)) == x) if N >= 3 else None
        w['x_descendant_of_t'] = z3.And(both, is_ancestor_or_self(pre, t, x))
        w['x_child_of_t'] = z3.And(both, sel(pre.some['parent'], x), sel(pre.idx['parent'], x) == t)
        w['x_next_of_t'] = z3.And(both, ts('next'), sel(pre.idx['next'], t) == x)
        w['x_prev_of_t'] = z3.And(both, ts('prev'), sel(pre.idx['prev'], t) == x)
        w['x_first_child_of_t'] = z3.And(both, ts('first'), sel(pre.idx['first'], t) == x)
        w['x_last_child_of_t'] = z3.And(both, ts('last'), sel(pre.idx['last'], t) == x)
        w['t_toplevel_chain'] = z3.And(both, z3.Not(ts('parent')), z3.Or(ts('prev'), ts('next'))) if N >= 3 else None
        w['t_has_children'] = z3.And(both, ts('first'), z3.Not(z3.And(sel(pre.idx['first'], t) == x, sel(pre.idx['last'], t) == x))) if N >= 3 else None
    if op == 'append_value':
        w['t_removed'] = z3.Not(ctx.t_live)
        w['t_has_children'] = z3.And(ctx.t_live, sel(pre.some['first'], t))
        w['alloc_recycles'] = pre.ff_some
        w['alloc_grows'] = z3.Not(pre.ff_some)
    if op == 'new_node':
        w['alloc_recycles'] = pre.ff_some
        w['alloc_grows'] = z3.Not(pre.ff_some)
    if op == 'remove_subtree':
        # subtree of depth >= 2
        kids = z3.Or(*[z3.And(A.live(i), pre.some['parent'][i], pre.idx['parent'][i] == x, pre.some['first'][i]) for i in range(N)])
        w['subtree_depth_ge_2'] = kids if N >= 3 else None
    return {k: v for k, v in w.items() if v is not None}


def role_pattern(ctx, m):
    """concrete role description of the arguments under model m (keys known findings, DESIGN section 7)"""
    if ctx.N == 0: return 'none'
    sit = situations(ctx)
    order = ['same_node', 't_removed', 'x_removed', 'x_grandparent_of_t', 'x_ancestor_of_t', 'x_first_child_of_t', 'x_last_child_of_t',
             'x_child_of_t', 'x_next_of_t', 'x_prev_of_t', 'x_descendant_of_t', 'x_toplevel_chain', 'stamp_at_max']
    got = []
    for k in order:
        if k in sit and z3.is_true(m.eval(sit[k], model_completion=True)): got.append(k)
    return '+'.join(got) if got else 'other'


# -----------------------------------------------------------------------------------------------

LEMMA_PREFIXES = ('C01.', 'C02.acyclic', 'C07.free', 'C07.retired', 'C12.removed_nolinks')


def run_mutator_job(prog, job):
    """job: dict(op, N, cfg, fix_t, fix_x, props (prefixes to assert), check_cov). returns JSON-able result"""
    t0 = time.time()
    op, N = job['op'], job['N']
    prefixes = tuple(p + '.' for p in job['props'])
    ctx = Ctx(prog, op, N, job.get('fix_t'), job.get('fix_x'), embedded=job.get('embedded', False))
    res = {'job': job, 'paths': 0, 'steps': 0, 'obligations': 0, 'discharged': 0, 'assert_queries': 0, 'violations': [],
           'outcomes': {}, 'coverage': {}, 'samples': [], 'nontrivial': 0, 'smt2': [], 'lemma_violations': [], 'lemma_queries': 0}
    if not ctx.pre_sat():
        res['vacuous'] = True
        res['wall'] = time.time() - t0
        return res
    outs = ctx.explore()
    eng = ctx.eng
    res['paths'] = len(outs); res['steps'] = sum(o.state.steps for o in outs)
    sit = situations(ctx)
    cov = {k: False for k in sit}
    sv = eng.solver
    tq = 0.0
    seen_traces = set()
    for o in outs:
        case = case_from_outcome(ctx, o)
        ob, info = mutator_obligations(case)
        key = info['kind'] + (':' + info['msg'][:50] if info['kind'] == 'panic' else '')
        res['outcomes'][key] = res['outcomes'].get(key, 0) + 1
        mine = [(n, f) for (n, f) in ob if n.startswith(prefixes)]
        res['obligations'] += len(mine)
        pc = list(o.state.pc)
        remaining = list(mine)
        # success path & changed state => nontrivial
        if info['kind'] in ('ok', 'result'):
            res['nontrivial'] += 1
        if info['kind'] in ('ok', 'result', 'panic'):
            for k, f in sit.items():
                if not cov[k]:
                    tq0 = time.time(); r = eng.check(pc + [f]); tq += time.time() - tq0
                    if r == z3.sat: cov[k] = True
        if len(res['samples']) < 3:
            try:
                if o.state.model is None and eng.check(list(pc)) == z3.sat: o.state.model = sv.model()
                res['samples'].append({'op': op, 'N': N, 'outcome': key, 'args': ctx.args_dict(o.state.model),
                                       'pre': ctx.A.model_dict(o.state.model), 'path_len': o.state.steps, 'obligations': len(mine)})
            except Exception:
                pass
        while remaining:
            neg = z3.Not(z3.And(*[f for (_, f) in remaining]))
            tq0 = time.time(); r = eng.check(pc + [neg]); tq += time.time() - tq0
            res['assert_queries'] += 1
            if job.get('export_smt2') and len(res['smt2']) < job['export_smt2']:
                res['smt2'].append(export_smt2(sv, pc + [neg], 'sat' if r == z3.sat else 'unsat'))
            if r == z3.unknown:
                res['unknown'] = 'assertion query unknown'
                break
            if r == z3.unsat:
                res['discharged'] += len(remaining)
                break
            m = sv.model()
            if getattr(ctx, 'prefer', None) and eng.check(pc + [neg] + ctx.prefer) == z3.sat: m = sv.model()
            failed = [(n, f) for (n, f) in remaining if z3.is_false(m.eval(f, model_completion=True))]
            if not failed:
                res['unknown'] = 'model does not falsify any obligation'
                break
            fnames = [n for (n, _) in failed]
            post = case.post
            res['violations'].append({
                'checks': fnames, 'op': op, 'N': N, 'cfg': job['cfg'], 'outcome': key,
                'args': ctx.args_dict(m), 'pre': ctx.A.model_dict(m), 'role': role_pattern(ctx, m),
                'post_model': post.to_dict(m) if post is not None else None,
            })
            fs = set(fnames)
            remaining = [(n, f) for (n, f) in remaining if n not in fs]
        # ---- supporting invariant (lemmas): the INV clauses that belong to other properties. The inductive argument for this
        # property assumes them in the pre-state, so a path that breaks one withholds the verdict (exit 2), it is not a violation here.
        lem = [(n, f) for (n, f) in ob if n.startswith(LEMMA_PREFIXES) and not n.startswith(prefixes)]
        if lem and len(res['lemma_violations']) < 4:
            neg = z3.Not(z3.And(*[f for (_, f) in lem]))
            tq0 = time.time(); r = eng.check(pc + [neg]); tq += time.time() - tq0
            res['lemma_queries'] += 1
            if r == z3.sat:
                m = sv.model()
                fnames = [n for (n, f) in lem if z3.is_false(m.eval(f, model_completion=True))]
                if fnames:
                    res['lemma_violations'].append({'checks': fnames, 'op': op, 'N': N, 'cfg': job['cfg'], 'outcome': key, 'args': ctx.args_dict(m),
                                                    'pre': ctx.A.model_dict(m), 'role': role_pattern(ctx, m)})
    res['coverage'] = cov
    res['feas_queries'] = eng.nq; res['model_hits'] = eng.nhit
    res['solver_time'] = eng.tq + tq
    res['wall'] = time.time() - t0
    return res


def export_smt2(solver, assumptions, expected):
    s2 = z3.Solver()
    for a in solver.assertions(): s2.add(a)
    for a in assumptions: s2.add(a)
    return {'expected': expected, 'smt2': '(set-logic ALL)\n' + s2.to_smt2()}
