"""developer scratch driver: python3-vt dev_try.py OP N [props]"""
import sys, os, time, json, pickle
import mirdump
from engine import Program
import harness

def load(cfg='dev', feat='std', cache='/var/tmp/mirsym-devcache'):
    os.makedirs(cache, exist_ok=True)
    p = os.path.join(cache, '%s-%s.txt' % (cfg, feat)); ps = os.path.join(cache, 'shims.txt')
    if not os.path.exists(p) or os.environ.get('REDUMP'):
        sc = mirdump.scratch_root()
        open(p, 'w').write(mirdump.dump_repo(sc, cfg, feat)); open(ps, 'w').write(mirdump.dump_shims(sc))
        os.rmdir(sc)
    return Program([(open(p).read(), mirdump.REPO), (open(ps).read(), mirdump.SHIMS)])

if __name__ == '__main__':
    op, N = sys.argv[1], int(sys.argv[2])
    props = sys.argv[3].split(',') if len(sys.argv) > 3 else ['C01','C02','C03','C04','C05','C06','C07','C08','C12','C13']
    prog = load(os.environ.get('CFG', 'dev'))
    job = {'op': op, 'N': N, 'cfg': os.environ.get('CFG', 'dev'), 'props': props, 'embedded': bool(os.environ.get('EMBED'))}
    r = harness.run_mutator_job(prog, job)
    v = r.pop('violations'); s = r.pop('samples')
    print(json.dumps(r, indent=1, default=str))
    names = {}
    for x in v:
        for c in x['checks']:
            k = c.split('[')[0] + ' @' + x['outcome'] + ' role=' + x['role']
            names[k] = names.get(k, 0) + 1
    for k, n in sorted(names.items()): print(n, k)
