"""Which jobs decide which property, per tier (DESIGN sections 4.5 and 5)."""
from harness import MUTATORS, INSERTS, CHECKED, UNCHECKED, UNARY

ALL = list(MUTATORS)
PROP_OPS = {
    'C01': ALL,
    'C02': ALL,
    'C03': ['detach', 'append_value'] + list(INSERTS),
    'C04': ['remove', 'remove_subtree'],
    'C05': ALL,
    'C06': ALL,
    'C07': ALL,
    'C08': ALL,
    'C12': ['remove', 'remove_subtree', 'append_value', 'new_node'] + list(INSERTS),
    'C13': ['clear'],
}
QUICK4 = set(CHECKED) | set(UNARY) | {'new_node', 'append_value', 'clear'}
NEEDS_NODES = set(INSERTS) | set(UNARY) | {'append_value'}
HEAVY = set(INSERTS) | {'remove', 'remove_subtree'}
EMBEDDABLE = set(INSERTS) | {'detach', 'remove', 'remove_subtree'}      # operations that neither grow the vector nor rebuild it


def weight(job):
    w = {0: 0.1, 1: 0.3, 2: 2, 3: 15, 4: 75, 5: 400, 6: 900}.get(job['N'], 1000)
    if job.get('op') == 'remove_subtree' and job['N'] >= 4: w *= (1 if job.get('fix_x') is not None else 4)
    if job.get('embedded') and job.get('kind') == 'mutator': w *= 2.5
    if job.get('kind', '').startswith('c17'):
        return {0: 0.1, 1: 0.5, 2: 5, 3: 40, 4: 100}.get(job['N'], 1000)
    if job.get('kind') == 'custom' and job.get('func') == 'run_clone_from_job':
        return {0: 0.2, 1: 1, 2: 10, 3: 200}.get(max(job['N'], job['M']), 1000)
    if job.get('kind') == 'custom' and job.get('func') == 'run_clone_job':
        return {0: 0.1, 1: 0.5, 2: 8, 3: 150}.get(job['N'], 1000)
    if job.get('kind') == 'custom' and job.get('module') == 'kanileaf': return 500
    if job.get('kind') == 'custom' and job.get('func') == 'run_rs_alloc_rs_job':
        return {2: 2, 3: 40, 4: 900}.get(job['N'], 3000)
    if job.get('kind') == 'custom' and job.get('func') == 'run_move_then_remove_job':
        return {2: 3, 3: 60, 4: 1200}.get(job['N'], 3000)
    if job.get('kind') == 'custom' and job.get('func') == 'run_de_history_job':
        return {2: 3, 3: 40, 4: 300, 5: 900}.get(job['N'], 1000)
    if job.get('kind') == 'custom' and job.get('func') == 'run_history_job':
        return {1: 0.3, 2: 3, 3: 12, 4: 80}.get(job['N'], 500) * (4 if job.get('final_ops') else 1) * (8 if job.get('final_ops') and job['N'] >= 3 else 1)
    if job.get('kind') == 'custom' and job.get('module') == 'pretty' and job.get('family'):
        return {5: 30, 6: 60}.get(job['N'], 500)
    if job.get('kind') == 'custom' and job.get('module') == 'pretty':
        return {1: 0.1, 2: 3, 3: 30, 4: 400}.get(job['N'], 1000)
    if job.get('kind') == 'custom' and job.get('module') in ('values', 'lookups'):
        return 0.2
    if job.get('kind') == 'custom':
        return {1: 0.2, 2: 2, 3: 25, 4: 200}.get(job['N'], 1000)
    if job.get('kind') in ('iter', 'pair', 'deiter'):
        return {1: 0.1, 2: 0.3, 3: 1, 4: 8, 5: 140, 6: 300}.get(job['N'], 1000) * (3 if job['kind'] != 'iter' else 1) * (3 if job.get('embedded') else 1)
    if job['op'] not in HEAVY: w *= 0.15
    if job.get('fix_t') is not None: w = 105
    if job.get('op') == 'remove' and job['N'] == 4: w = 50
    return w


def mutator_jobs(prop, tier):
    ops = PROP_OPS.get(prop, [])
    jobs = []
    cfgs = ['dev']
    if prop in ('C05', 'C04'): cfgs = ['dev', 'release']
    if tier == 'thorough': cfgs = ['dev', 'release']
    for cfg in cfgs:
        for op in ops:
            if tier == 'quick':
                ns = [0, 1, 2, 3]
            else:
                # measured (one job): insert N=4 ~75 s, remove_subtree N=4 ~275 s, insert N=5 with both slot numbers fixed ~105 s
                ns = [0, 1, 2, 3, 4] + ([5] if op not in HEAVY else []) + ([6] if op in ('new_node', 'clear') else [])
            for N in ns:
                if N == 0 and op in NEEDS_NODES: continue
                if cfg == 'release' and tier == 'quick' and N < 3 and prop not in ('C05', 'C04'): continue
                if cfg == 'release' and tier == 'thorough' and N >= 4 and op in HEAVY and prop != 'C05': continue
                if N == 4 and op == 'remove_subtree':
                    for x in range(1, 5): jobs.append({'kind': 'mutator', 'op': op, 'N': N, 'cfg': cfg, 'feat': 'std', 'props': [prop], 'fix_x': x})
                    continue
                jobs.append({'kind': 'mutator', 'op': op, 'N': N, 'cfg': cfg, 'feat': 'std', 'props': [prop]})
            if tier == 'quick' and (cfg == 'dev' or prop == 'C04') and op in QUICK4:
                # N = 4 is the smallest arena with a middle child, or a last child that has two children of its own: the unchecked
                # inserts are thin wrappers around the checked ones and are left to the thorough tier at this size
                if op == 'remove_subtree':
                    for x in range(1, 5): jobs.append({'kind': 'mutator', 'op': op, 'N': 4, 'cfg': cfg, 'feat': 'std', 'props': [prop], 'fix_x': x})
                else:
                    jobs.append({'kind': 'mutator', 'op': op, 'N': 4, 'cfg': cfg, 'feat': 'std', 'props': [prop]})
            if tier == 'quick' and prop in ('C01', 'C03') and op in CHECKED and cfg == 'dev':
                # one representative argument pair at N = 5 (a parent with four children needs five slots); the full 25-pair
                # partition is in the thorough tier. By the symmetry of slot numbering this pair stands for most others, but that
                # is a heuristic of the quick tier, not part of the claim.
                jobs.append({'kind': 'mutator', 'op': op, 'N': 5, 'cfg': cfg, 'feat': 'std', 'props': [prop], 'fix_t': 1, 'fix_x': 2})
            if cfg == 'dev' and op in EMBEDDABLE:
                # embedded mode: the N modelled slots (a link-closed component together with the whole free list) at symbolic positions
                # of an arena of symbolic length <= 2^17 whose other slots are live nodes that no link leads to
                for N in ((2, 3) if tier == 'quick' else (2, 3, 4)):
                    if N == 4 and op == 'remove_subtree': continue       # measured: 40-70 min for the partition x = 1; N <= 3 only
                    jobs.append({'kind': 'mutator', 'op': op, 'N': N, 'cfg': cfg, 'feat': 'std', 'props': [prop], 'embedded': True})
            if tier == 'thorough' and op in CHECKED and cfg == 'dev':
                # N = 5 partitioned by the slot numbers of the two arguments (the union of the 25 sub-jobs is the same claim)
                N = 5
                for t in range(1, N + 1):
                    for x in range(1, N + 1):
                        jobs.append({'kind': 'mutator', 'op': op, 'N': N, 'cfg': cfg, 'feat': 'std', 'props': [prop], 'fix_t': t, 'fix_x': x})
    return jobs


def iter_jobs(prop, tier):
    import iters
    jobs = []
    nmax = 4 if tier == 'quick' else 5
    for N in range(1, nmax + 1):
        if prop in ('C02', 'C09'):
            for name in iters.FWD + iters.EDGE:
                jobs.append({'kind': 'iter', 'name': name, 'op': name, 'N': N, 'cfg': 'dev', 'feat': 'std', 'props': [prop]})
        if prop == 'C09':
            jobs.append({'kind': 'pair', 'name': 'traverse_pair', 'op': 'traverse_pair', 'N': N, 'cfg': 'dev', 'feat': 'std', 'props': [prop]})
        if prop == 'C10' and N <= (4 if tier == 'quick' else 5):
            for name in iters.DE:
                jobs.append({'kind': 'deiter', 'name': name, 'op': name + '_pulls', 'N': N, 'cfg': 'dev', 'feat': 'std', 'props': [prop]})
    # embedded mode: the N modelled nodes are a link-closed component at symbolic positions of an arena of symbolic length <= 2^17
    # (behaviour that depends on absolute slot numbers, e.g. a 64-bit visited mask indexed by slot number, seed C10-h)
    for N in range(1, (4 if tier == 'quick' else 5) + 1):
        if prop in ('C02', 'C09'):
            for name in iters.FWD + iters.EDGE:
                jobs.append({'kind': 'iter', 'name': name, 'op': name + '_embedded', 'N': N, 'embedded': True, 'cfg': 'dev', 'feat': 'std', 'props': [prop]})
        if prop == 'C09':
            jobs.append({'kind': 'pair', 'name': 'traverse_pair', 'op': 'traverse_pair_embedded', 'N': N, 'embedded': True, 'cfg': 'dev', 'feat': 'std', 'props': [prop]})
        if prop == 'C10':
            for name in iters.DE:
                jobs.append({'kind': 'deiter', 'name': name, 'op': name + '_pulls_embedded', 'N': N, 'embedded': True, 'cfg': 'dev', 'feat': 'std', 'props': [prop]})
    if prop == 'C10':
        # the double-ended iterators on the forest a checked insert leaves behind (quick: N <= 3; thorough also N = 4 and one argument pair at N = 5)
        for opm in ('checked_append', 'checked_prepend', 'checked_insert_after', 'checked_insert_before'):
            for N in ((2, 3) if tier == 'quick' else (2, 3, 4)):
                jobs.append({'kind': 'custom', 'module': 'iters', 'func': 'run_de_history_job', 'name': 'de_after_' + opm, 'op': 'de_after_' + opm, 'op_mut': opm, 'N': N, 'cfg': 'dev', 'feat': 'std', 'props': [prop]})
            if tier == 'thorough':
                jobs.append({'kind': 'custom', 'module': 'iters', 'func': 'run_de_history_job', 'name': 'de_after_' + opm, 'op': 'de_after_' + opm, 'op_mut': opm, 'N': 5, 'fix_t': 1, 'fix_x': 2, 'cfg': 'dev', 'feat': 'std', 'props': [prop]})
    if tier == 'thorough' and prop in ('C02', 'C09'):
        for name in ['ancestors', 'predecessors', 'preceding_siblings', 'following_siblings', 'children', 'reverse_children']:
            jobs.append({'kind': 'iter', 'name': name, 'op': name, 'N': 6, 'cfg': 'dev', 'feat': 'std', 'props': [prop]})
    return jobs


def multi_jobs(prop, tier):
    jobs = _multi_jobs(prop, tier)
    # the same histories on the release MIR (debug assertions compiled out: a fault that a debug build stops with an assertion
    # runs on silently there, seed C06-i), one size smaller
    extra = []
    for j in jobs:
        if j['N'] <= (2 if tier == 'quick' else 3):
            k = dict(j); k['cfg'] = 'release'; extra.append(k)
    return jobs + extra


def _multi_jobs(prop, tier):
    jobs = []
    nmax = 3 if tier == 'quick' else 4
    for N in range(1, nmax + 1):
        if prop == 'C06':
            for how in ('remove', 'remove_subtree'):
                jobs.append({'kind': 'custom', 'module': 'multistep', 'func': 'run_cycle_job', 'name': 'cycle_' + how, 'op': 'cycle_' + how, 'how': how,
                             'N': N, 'cfg': 'dev', 'feat': 'std', 'props': [prop]})
        if prop == 'C07':
            for first in (None, 'remove', 'remove_subtree'):
                jobs.append({'kind': 'custom', 'module': 'multistep', 'func': 'run_drain_job', 'name': 'drain_after_%s' % first, 'op': 'drain_after_%s' % first,
                             'first': first, 'N': N, 'cfg': 'dev', 'feat': 'std', 'props': [prop]})
    return jobs


def lookup_jobs(prop, tier):
    import replay
    r = replay.run_script(['sizeof'], 'dev').get(0)
    sizes = sorted(set(int(x) for x in r[1].split())) if r and r[0] == 'OK' else [104]
    jobs = []
    for N in range(0, (5 if tier == 'quick' else 7)):
        for sz in (sizes if tier == 'thorough' else sizes[:2]):
            jobs.append({'kind': 'custom', 'module': 'lookups', 'func': 'run_lookup_job', 'name': 'lookups', 'op': 'lookups', 'N': N, 'size': sz,
                         'cfg': 'dev', 'feat': 'std', 'props': [prop]})
    if prop == 'C11':
        # embedded: the modelled slots at symbolic positions of an arena of up to 2^17 slots; node size 128 (a power of two keeps the
        # pointer-offset division of get_node_id a shift for the solver; the replay uses the ordinary payload type)
        for N in range(1, (4 if tier == 'quick' else 5)):
            jobs.append({'kind': 'custom', 'module': 'lookups', 'func': 'run_lookup_embedded_job', 'name': 'lookups_embedded', 'op': 'lookups_embedded', 'N': N, 'size': 128,
                         'cfg': 'dev', 'feat': 'std', 'props': [prop]})
    return jobs


def value_jobs(prop, tier):
    jobs = [{'kind': 'custom', 'module': 'values', 'func': 'run_base_job', 'name': 'constructors', 'op': 'constructors', 'N': 0, 'cfg': 'dev', 'feat': 'std', 'props': [prop]}]
    for N in range(0, 5 if tier == 'quick' else 6):
        if N <= (2 if tier == 'quick' else 3):
            jobs.append({'kind': 'custom', 'module': 'values', 'func': 'run_clone_job', 'name': 'clone_eq', 'op': 'clone_eq', 'N': N, 'cfg': 'dev', 'feat': 'std', 'props': [prop]})
        jobs.append({'kind': 'custom', 'module': 'values', 'func': 'run_clear_job', 'name': 'clear_fresh', 'op': 'clear_fresh', 'N': N, 'cfg': 'dev', 'feat': 'std', 'props': [prop]})
        jobs.append({'kind': 'custom', 'module': 'values', 'func': 'run_reserve_job', 'name': 'reserve', 'op': 'reserve', 'N': N, 'cfg': 'dev', 'feat': 'std', 'props': [prop]})
    jobs += clone_from_jobs(prop, tier)
    return jobs


def clone_from_jobs(prop, tier):
    jobs = []
    mx = 2 if tier == 'quick' else 3
    for M in range(0, mx + 1):
        for N in range(0, mx + 1):
            jobs.append({'kind': 'custom', 'module': 'values', 'func': 'run_clone_from_job', 'name': 'clone_from', 'op': 'clone_from', 'M': M, 'N': N, 'cfg': 'dev', 'feat': 'std', 'props': [prop]})
    return jobs


def c17_jobs(prop, tier):
    import iters
    jobs = []
    base = ('dev', 'std')
    cfgs = ['dev'] if tier == 'quick' else ['dev', 'release']
    for cfg in cfgs:
        for feat in ('nostd', 'all'):
            b = (cfg, 'std'); o = (cfg, feat)
            common = {'cfg': cfg, 'feat': 'std', 'base': list(b), 'other': list(o), 'needs': [list(b), list(o)], 'props': [prop]}
            jobs.append(dict(common, kind='c17_id', name='mir_identity_std_vs_' + feat, op='mir_identity_std_vs_' + feat, N=0))
            jobs.append(dict(common, kind='c17_display', name='diff_display_id', op='diff_display_id', N=0))
            if feat == 'all':
                for N in range(0, 4): jobs.append(dict(common, kind='c17_par_iter', name='par_iter_slice', op='par_iter_slice', N=N))
            nm = 3 if tier == 'quick' else 4
            for N in range(0, nm + 1):
                for op in MUTATORS:
                    if N == 0 and op in NEEDS_NODES: continue
                    jobs.append(dict(common, kind='c17_mut', name='diff_' + op, op=op, N=N))
            for N in range(1, (3 if tier == 'quick' else 4) + 1):
                for name in iters.FWD + iters.EDGE:
                    jobs.append(dict(common, kind='c17_iter', name=name, op='diff_' + name, N=N))
            for N in (1, 2) if tier == 'quick' else (1, 2, 3):
                for trait in ('Display', 'Debug'):
                    if N < 3: jobs.append(dict(common, kind='c17_pretty', name='diff_pretty_' + trait, op='diff_pretty_' + trait.lower(), N=N, trait=trait))
                    else:
                        for x_ in (1, 2, 3):
                            jobs.append(dict(common, kind='c17_pretty', name='diff_pretty_' + trait, op='diff_pretty_' + trait.lower(), N=N, trait=trait, fix_x=x_, rset=[0, 1, 4, 6]))
    return jobs


def pretty_jobs(prop, tier):
    jobs = []
    def J(N, trait, **kw):
        j = {'kind': 'custom', 'module': 'pretty', 'func': 'run_pretty_job', 'name': 'pretty_' + trait.lower(), 'op': 'pretty_' + trait.lower(), 'N': N, 'trait': trait,
             'cfg': 'dev', 'feat': 'std', 'props': [prop]}
        j.update(kw); return j
    for trait in ('Display', 'Debug'):
        for N in (1, 2): jobs.append(J(N, trait))
        for x in (1, 2, 3):
            # quick: five of the eight renderings at N = 3 (single line, two lines, chunked with an empty interior line, \r\n, a line
            # break through write_char); the full alphabet runs at N <= 2 and, in the thorough tier, at N = 3
            for alt in (0, 1): jobs.append(J(3, trait, fix_x=x, alt=alt, **({'rset': [0, 1, 4, 6, 7]} if tier == 'quick' else {})))
        if tier != 'quick':
            for x in (1, 2, 3, 4):
                for alt in (0, 1): jobs.append(J(4, trait, fix_x=x, alt=alt, rset=[0, 1, 4]))
    # deep trees: ONE tree of 5 / 6 nodes printed from its root (slots numbered in depth-first pre-order), renderings `a` / `a\nb` per node symbolic; partitioned by the parents of slots 3.. (seed C14-h needs depth 3 under a
    # last child, i.e. six nodes).  quick: N = 5 all four modes, N = 6 Display plain; thorough: N = 5 and N = 6 in all four modes.
    def preorder_prefixes(upto):
        """parent assignments {slot: parent} for slots 3..upto that a depth-first pre-order numbering allows (slot 2 is a child of 1)"""
        outs = [{2: 1}]
        for i in range(3, upto + 1):
            nxt = []
            for pa in outs:
                c = i - 1; path = []
                while c is not None: path.append(c); c = pa.get(c)
                for q_ in path: d_ = dict(pa); d_[i] = q_; nxt.append(d_)
            outs = nxt
        return [{str(k): v for k, v in pa.items() if k >= 3} for pa in outs]
    for trait in ('Display', 'Debug'):
        for alt in (0, 1):
            for fp in preorder_prefixes(3):
                jobs.append(J(5, trait, fix_x=1, alt=alt, rset=[0, 1], family='tree', fix_parent=fp, op='pretty_%s_tree5' % trait.lower()))
            if tier == 'quick' and not (trait == 'Display' and alt == 0): continue
            for fp in preorder_prefixes(5):
                jobs.append(J(6, trait, fix_x=1, alt=alt, rset=[0, 1], family='tree', fix_parent=fp, op='pretty_%s_tree6' % trait.lower()))
    return jobs


def history_jobs(prop, tier):
    jobs = []
    def J(N, free_op, finals):
        return {'kind': 'custom', 'module': 'multistep', 'func': 'run_history_job', 'name': 'history_%s' % free_op, 'op': 'history_%s%s' % (free_op, '+insert' if finals else ''),
                'free_op': free_op, 'final_ops': finals, 'N': N, 'cfg': 'dev', 'feat': 'std', 'props': [prop]}
    for free_op in ('remove', 'remove_subtree'):
        for N in range(1, (3 if tier == 'quick' else 4) + 1):
            jobs.append(J(N, free_op, []))
        if prop in ('C01', 'C02'):
            jobs.append(J(2, free_op, ['checked_append', 'checked_insert_after'] if tier == 'quick' else ['checked_append', 'checked_prepend', 'checked_insert_after', 'checked_insert_before']))
            if tier == 'thorough': jobs.append(J(3, free_op, ['checked_append', 'checked_insert_before']))
    return jobs


def with_release(jobs, tier, maxn=3):
    """thorough tier: the non-mutator harnesses also run on the release-configuration MIR (debug assertions compiled out)"""
    if tier != 'thorough': return jobs
    extra = []
    for j in jobs:
        if j.get('cfg') == 'dev' and j.get('N', 0) <= maxn and not j.get('kind', '').startswith('c17') and j.get('module') != 'kanileaf':
            k = dict(j); k['cfg'] = 'release'; extra.append(k)
    return jobs + extra


def plan(prop, tier):
    return with_release(plan_dev(prop, tier), tier) if prop in ('C09', 'C10', 'C11', 'C13', 'C14') else plan_dev(prop, tier)


def plan_dev(prop, tier):
    jobs = mutator_jobs(prop, tier)
    if prop in ('C01', 'C02', 'C08', 'C12'): jobs += history_jobs(prop, tier)
    if prop in ('C08', 'C04'):
        for opm in (('checked_insert_after', 'checked_append') if tier == 'quick' else ('checked_append', 'checked_prepend', 'checked_insert_after', 'checked_insert_before')):
            for N in ((2, 3) if tier == 'quick' else (2, 3, 4)):
                jobs.append({'kind': 'custom', 'module': 'multistep', 'func': 'run_move_then_remove_job', 'name': 'move_then_remove', 'op': opm + '_then_remove_subtree',
                             'op_mut': opm, 'N': N, 'cfg': 'dev', 'feat': 'std', 'props': [prop]})
    if prop == 'C08':
        for N in ((2, 3) if tier == 'quick' else (2, 3, 4)):
            jobs.append({'kind': 'custom', 'module': 'multistep', 'func': 'run_rs_alloc_rs_job', 'name': 'rs_alloc_rs', 'op': 'remove_subtree_alloc_remove_subtree',
                         'N': N, 'cfg': 'dev', 'feat': 'std', 'props': [prop]})
    if prop in ('C03', 'C08'):
        for N in range(1, (3 if tier == 'quick' else 4) + 1):
            jobs.append({'kind': 'custom', 'module': 'multistep', 'func': 'run_append_value_equiv_job', 'name': 'append_value_equiv', 'op': 'append_value_equiv',
                         'N': N, 'cfg': 'dev', 'feat': 'std', 'props': [prop]})
    if prop == 'C08': jobs += [j for j in value_jobs('C08', tier) if j['func'] in ('run_clear_job', 'run_clone_from_job')]
    if prop == 'C11': jobs += clone_from_jobs('C11', tier)
    if prop == 'C14': jobs += pretty_jobs(prop, tier)
    if prop == 'C17': jobs += c17_jobs(prop, tier)
    if prop == 'C13': jobs += value_jobs(prop, tier)
    if prop == 'C13' and tier == 'thorough':
        jobs.append({'kind': 'custom', 'module': 'kanileaf', 'func': 'run_kani_job', 'name': 'kani_capacity', 'op': 'kani_capacity', 'N': 3, 'cfg': 'dev', 'feat': 'std', 'props': [prop]})
    if prop == 'C08': jobs += [j for j in lookup_jobs(prop, tier) if j['N'] >= 1]
    if prop == 'C11': jobs += lookup_jobs(prop, tier)
    if prop in ('C06', 'C07'): jobs += multi_jobs(prop, tier)
    if prop in ('C02', 'C09', 'C10'): jobs += iter_jobs(prop, tier)
    return jobs


CLAIMED = ['C01', 'C02', 'C03', 'C04', 'C05', 'C06', 'C07', 'C08', 'C09', 'C10', 'C12']
