import sys, json
from dev_try import load
mod, fn, N = sys.argv[1], sys.argv[2], int(sys.argv[3])
prog = load()
job = {'kind': 'custom', 'name': fn, 'N': N, 'cfg': 'dev', 'props': ['C08', 'C10', 'C11', 'C13', 'C14', 'C17'], 'size': 104}
for kv in sys.argv[4:]:
    k, v = kv.split('='); job[k] = ([int(c) for c in v] if k == 'rset' else (int(v) if v.isdigit() else v))
r = getattr(__import__(mod), fn)(prog, job)
v = r.pop('violations'); r.pop('samples'); r.pop('smt2')
print(json.dumps(r, default=str))
names = {}
for x in v:
    for c in x['checks']:
        k = c.split('[')[0]; names[k] = names.get(k, 0) + 1
print(names)
if v: print(json.dumps(v[0], default=str)[:1500])
