import sys, os, json
from dev_try import load
import iters
fn, name, N = sys.argv[1], sys.argv[2], int(sys.argv[3])
prog = load()
job = {'kind': 'iter', 'name': name, 'N': N, 'cfg': 'dev', 'props': ['C02', 'C05', 'C09', 'C10'], 'embedded': bool(os.environ.get('EMBED'))}
r = getattr(iters, fn)(prog, job)
v = r.pop('violations'); r.pop('samples'); r.pop('smt2')
print(json.dumps(r, default=str))
names = {}
for x in v:
    for c in x['checks']:
        k = c.split('[')[0]; names[k] = names.get(k, 0) + 1
print(names)
if v: print(json.dumps(v[0], default=str)[:1500])
