"""C09 / C10 / C02(c): the traversal iterators, run symbolically to exhaustion from an arbitrary INV forest."""
import time, json
import z3
from engine import *
from symarena import *
import harness
from harness import find_fn

FWD = ['ancestors', 'predecessors', 'preceding_siblings', 'following_siblings', 'children', 'reverse_children', 'descendants']
EDGE = ['traverse', 'reverse_traverse']
DE = ['children', 'preceding_siblings', 'following_siblings']
ITER_TYPE = {'ancestors': 'Ancestors', 'predecessors': 'Predecessors', 'preceding_siblings': 'PrecedingSiblings',
             'following_siblings': 'FollowingSiblings', 'children': 'Children', 'reverse_children': 'ReverseChildren',
             'descendants': 'Descendants', 'traverse': 'Traverse', 'reverse_traverse': 'ReverseTraverse'}
T_, F_ = z3.BoolVal(True), z3.BoolVal(False)


UNMAP = None      # embedded mode: real position -> abstract slot number, applied by id_terms
PREFER = []       # embedded mode: constraints preferred (not required) for counterexample models (small arenas replay faster)
EMBED_MAXLEN = 1 << 17


class ICtx:
    def __init__(self, prog, N, fix_x=None, max_steps=None, embedded=False):
        global UNMAP, PREFER
        self.prog, self.N = prog, N
        self.eng = Engine(prog, max_steps=max_steps or (6000 + 6000 * N))
        self.A = SymArena(N)
        for c in self.A.inv(): self.eng.solver.add(c)
        self.x = z3.BitVec('x', 64) if fix_x is None else BV64(fix_x)
        self.eng.solver.add(z3.UGE(self.x, 1), z3.ULE(self.x, N), sel([self.A.live(i) for i in range(N)], self.x))
        self.st = State()
        self.pre = View(self.A.value())             # abstract view: slot numbers 1..N
        self.embedded = embedded
        UNMAP = None; PREFER = []
        if embedded:
            # the N modelled slots are a link-closed component at symbolic positions of an arena of symbolic length
            for c in self.A.embed(EMBED_MAXLEN): self.eng.solver.add(c)
            UNMAP = self.A.to_abstract
            self.eng.havoc_elem = self.A.havoc_node
            PREFER = [z3.ULT(self.A.at[-1], 200), z3.ULE(self.A.vlen, self.A.at[-1] + 2)]
        self.acell = self.st.new_cell(self.A.value(embedded=embedded))
        self.id_x = self.A.id_of(self.x)

    def aref(self): return Ref(self.acell, ())


def opt_parts(v):
    """Option<NodeId> / Option<NodeEdge> value -> (is_some term, payload)"""
    assert isinstance(v, En), v
    some = zb(S(v.d.v, 'isize')) == 1
    return some, (v.pay[1][0] if 1 in v.pay else None)


def id_terms(nid):
    i = zb(nid.f[0].f[0])
    return (UNMAP(i) if UNMAP else i), zb(nid.f[1].f[0])


def edge_terms(e):
    """NodeEdge value -> (is_end term, idx term, stamp term)"""
    assert isinstance(e, En), e
    is_end = zb(S(e.d.v, 'isize')) == 1
    parts = {}
    for k in (0, 1):
        if k in e.pay: parts[k] = id_terms(e.pay[k][0])
    if 0 in parts and 1 in parts:
        return is_end, z3.If(is_end, parts[1][0], parts[0][0]), z3.If(is_end, parts[1][1], parts[0][1])
    k = 0 if 0 in parts else 1
    return is_end, parts[k][0], parts[k][1]


def drive(eng, states, method_of, limit, pulls=None):
    """states: list of (state, itcell, seq). Calls next() (or per `pulls` pattern 'f'/'b') until None.
    returns list of (state, itcell, seq, finished) where seq is list of yielded payload values (or None for a None pull when pulls given)"""
    done = []
    work = list(states)
    while work:
        s, itcell, seq = work.pop()
        k = len(seq)
        if pulls is not None:
            if k >= len(pulls):
                done.append((s, itcell, seq, True)); continue
            fn = method_of('next' if pulls[k] == 'f' else 'next_back')
        else:
            if k > limit:
                done.append((s, itcell, seq, False)); continue
            fn = method_of('next')
        s.steps = 0
        eng.push_call(s, fn, [Ref(itcell, ())], None, None)
        for o in eng.run(s):
            if o.kind != 'return':
                done.append((o.state, itcell, seq, o.kind + ':' + (o.msg or '')[:60])); continue
            some, pay = opt_parts(o.value)
            if pay is not None and eng.feasible(o.state, some):
                s2 = o.state.copy(); s2.pc.append(some); s2.model = eng.fix_model(s2, some)
                work.append((s2, itcell, seq + [pay]))
            ns = z3.Not(some)
            if eng.feasible(o.state, ns):
                s3 = o.state.copy(); s3.pc.append(ns); s3.model = eng.fix_model(s3, ns)
                if pulls is not None: work.append((s3, itcell, seq + [None]))
                else: done.append((s3, itcell, seq, True))
    return done


def make_iter(ic, kind):
    """construct the iterator through the public constructor NodeId::<kind>(self, &arena); returns list of (state, itcell)"""
    eng = ic.eng
    ctor = find_fn(ic.prog, 'NodeId', kind)
    st = ic.st.copy()
    eng.push_call(st, ctor, [ic.id_x, ic.aref()], None, None)
    res = []
    for o in eng.run(st):
        if o.kind != 'return':
            res.append((o.state, None, o.kind + ':' + (o.msg or '')[:60])); continue
        c = o.state.new_cell(o.value)
        res.append((o.state, c, None))
    return res


def method_lookup(prog, tyname):
    def m(meth):
        c = prog.methods.get((tyname, meth), [])
        want = 'Iterator' if meth == 'next' else 'DoubleEndedIterator'
        c2 = [f for (t, f) in c if t == want] or [f for (t, f) in c]
        if not c2: raise Unsupported('no %s::%s in MIR' % (tyname, meth))
        return c2[0]
    return m


# ---------------------------------------------------------------------------------------------
# reference sequences from the abstraction (pre View), as successor relations

def link_of(V, L, n):
    return sel(V.some[L], n), sel(V.idx[L], n)


def preorder_next(V, x, n):
    """(some, idx): successor of n in the depth-first pre-order of subtree(x)"""
    fs, fi = link_of(V, 'first', n)
    # climb: first node on the path n -> x (exclusive of x) that has a next sibling
    res_some, res_idx = F_, BV64(0)
    cur = n; active = T_
    found = F_
    for _ in range(V.N):
        at_root = (cur == x)
        ns, ni = link_of(V, 'next', cur)
        take = z3.And(active, z3.Not(at_root), ns, z3.Not(found))
        res_some = z3.Or(res_some, take); res_idx = z3.If(take, ni, res_idx)
        found = z3.Or(found, take)
        ps, pi = link_of(V, 'parent', cur)
        active = z3.And(active, z3.Not(at_root), ps)
        cur = pi
    return z3.If(fs, T_, res_some), z3.If(fs, fi, res_idx)


def fwd_obligations(kind, pre, x, seq, finished):
    """seq: list of (idx, stamp) terms"""
    ob = []
    N = pre.N
    P = 'C09.' + kind
    k = len(seq)
    if finished is not True:
        return [('C02.iterator_finite[%s]' % kind, F_)]
    ob.append(('C02.iterator_bounded[%s]' % kind, z3.BoolVal(k <= N)))
    if k >= 2: ob.append(('C02.iterator_distinct[%s]' % kind, z3.Distinct(*[i for (i, _) in seq])))
    for j, (i, s) in enumerate(seq):
        ob.append(('%s.valid_id[%d]' % (P, j), z3.And(z3.UGE(i, 1), z3.ULE(i, N), s == sel(pre.stamp, i), s >= 0)))
    def step_rule(name, first_opt, succ):
        fs, fi = first_opt
        if k == 0: ob.append(('%s.%s.empty' % (P, name), z3.Not(fs)))
        else:
            ob.append(('%s.%s.first' % (P, name), z3.And(fs, seq[0][0] == fi)))
            for j in range(k - 1):
                ss, si = succ(seq[j][0])
                ob.append(('%s.%s.step[%d]' % (P, name, j), z3.And(ss, seq[j + 1][0] == si)))
            ss, si = succ(seq[k - 1][0])
            ob.append(('%s.%s.end' % (P, name), z3.Not(ss)))
    if kind == 'ancestors':
        step_rule('parent_walk', (T_, x), lambda n: link_of(pre, 'parent', n))
    elif kind == 'predecessors':
        def succ(n):
            ps, pi = link_of(pre, 'prev', n); qs, qi = link_of(pre, 'parent', n)
            return z3.Or(ps, qs), z3.If(ps, pi, qi)
        step_rule('prev_or_parent_walk', (T_, x), succ)
    elif kind == 'preceding_siblings':
        step_rule('prev_walk', (T_, x), lambda n: link_of(pre, 'prev', n))
    elif kind == 'following_siblings':
        step_rule('next_walk', (T_, x), lambda n: link_of(pre, 'next', n))
    elif kind == 'children':
        step_rule('child_chain', link_of(pre, 'first', x), lambda n: link_of(pre, 'next', n))
        for j, (i, _) in enumerate(seq):
            ob.append(('%s.is_child[%d]' % (P, j), z3.And(sel(pre.some['parent'], i), sel(pre.idx['parent'], i) == x)))
        nchild = sum([z3.If(z3.And(pre.live(i), pre.some['parent'][i], pre.idx['parent'][i] == x), 1, 0) for i in range(N)], z3.IntVal(0))
        ob.append(('%s.all_children' % P, nchild == k))
    elif kind == 'reverse_children':
        step_rule('child_chain_rev', link_of(pre, 'last', x), lambda n: link_of(pre, 'prev', n))
        nchild = sum([z3.If(z3.And(pre.live(i), pre.some['parent'][i], pre.idx['parent'][i] == x), 1, 0) for i in range(N)], z3.IntVal(0))
        ob.append(('%s.all_children' % P, nchild == k))
    elif kind == 'descendants':
        step_rule('preorder', (T_, x), lambda n: preorder_next(pre, x, n))
        members = [z3.And(pre.live(i), is_ancestor_or_self(pre, x, BV64(i + 1))) for i in range(N)]
        cnt = sum([z3.If(m, 1, 0) for m in members], z3.IntVal(0))
        ob.append(('%s.exactly_subtree.count' % P, cnt == k))
        for j, (i, _) in enumerate(seq):
            ob.append(('%s.exactly_subtree.member[%d]' % (P, j), sel(members, i)))
    return ob


def edge_succ(pre, x, e):
    """reference successor of edge e=(is_end, idx) in traverse(x): (some, is_end, idx)"""
    is_end, n = e
    fs, fi = link_of(pre, 'first', n)
    ns, ni = link_of(pre, 'next', n)
    ps, pi = link_of(pre, 'parent', n)
    # Start(n): first child ? Start(first) : End(n)
    s_some, s_end, s_idx = T_, z3.Not(fs), z3.If(fs, fi, n)
    # End(n): n == x ? None : next ? Start(next) : End(parent)
    e_some = z3.And(n != x, z3.Or(ns, ps)); e_end = z3.Not(ns); e_idx = z3.If(ns, ni, pi)
    return z3.If(is_end, e_some, s_some), z3.If(is_end, e_end, s_end), z3.If(is_end, e_idx, s_idx)


def edge_pred(pre, x, e):
    """reference successor of edge e in reverse_traverse(x)"""
    is_end, n = e
    ls, li = link_of(pre, 'last', n)
    vs, vi = link_of(pre, 'prev', n)
    ps, pi = link_of(pre, 'parent', n)
    # End(n): last child ? End(last) : Start(n)
    e_some, e_end, e_idx = T_, ls, z3.If(ls, li, n)
    # Start(n): n == x ? None : prev ? End(prev) : Start(parent)
    s_some = z3.And(n != x, z3.Or(vs, ps)); s_end = vs; s_idx = z3.If(vs, vi, pi)
    return z3.If(is_end, e_some, s_some), z3.If(is_end, e_end, s_end), z3.If(is_end, e_idx, s_idx)


def edge_obligations(kind, pre, x, seq, finished):
    """seq: list of (is_end, idx, stamp)"""
    N = pre.N
    P = 'C09.' + kind
    k = len(seq)
    if finished is not True:
        return [('C02.iterator_finite[%s]' % kind, F_)]
    ob = [('C02.iterator_bounded[%s]' % kind, z3.BoolVal(k <= 2 * N))]
    for a in range(k):
        for b in range(a + 1, k):
            ob.append(('C02.edges_distinct[%s]' % kind, z3.Not(z3.And(seq[a][0] == seq[b][0], seq[a][1] == seq[b][1]))))
    members = [z3.And(pre.live(i), is_ancestor_or_self(pre, x, BV64(i + 1))) for i in range(N)]
    cnt = sum([z3.If(m, 1, 0) for m in members], z3.IntVal(0))
    ob.append(('%s.balanced.count' % P, 2 * cnt == k))
    fwd = kind == 'traverse'
    succ = edge_succ if fwd else edge_pred
    if k == 0:
        ob.append(('%s.nonempty' % P, F_)); return ob
    ob.append(('%s.first' % P, z3.And(seq[0][0] == z3.BoolVal(not fwd), seq[0][1] == x)))
    ob.append(('%s.last' % P, z3.And(seq[k - 1][0] == z3.BoolVal(fwd), seq[k - 1][1] == x)))
    for j, (ie, i, s) in enumerate(seq):
        ob.append(('%s.valid_id[%d]' % (P, j), z3.And(z3.UGE(i, 1), z3.ULE(i, N), s == sel(pre.stamp, i), s >= 0)))
        ob.append(('%s.confined[%d]' % (P, j), sel(members, i)))
        # Start(n) comes before End(n) (after, for the reverse traversal): count matching opposite edges before j
        if j + 1 < k:
            ss, se, si = succ(pre, x, (ie, i))
            ob.append(('%s.step[%d]' % (P, j), z3.And(ss, seq[j + 1][0] == se, seq[j + 1][1] == si)))
    ss, se, si = succ(pre, x, (seq[k - 1][0], seq[k - 1][1]))
    ob.append(('%s.end' % P, z3.Not(ss)))
    # the Start subsequence is the depth-first pre-order (independent formulation through preorder_next)
    if fwd:
        # position-wise: the next Start after a Start(n) is preorder_next(n)
        for a in range(k):
            # find the next Start after position a: chain of ITEs over later positions
            nxt_some, nxt_idx = F_, BV64(0)
            for b in range(k - 1, a, -1):
                isS = z3.Not(seq[b][0])
                nxt_some = z3.If(isS, T_, nxt_some); nxt_idx = z3.If(isS, seq[b][1], nxt_idx)
            rs, ri = preorder_next(pre, x, seq[a][1])
            ob.append(('%s.start_order_is_preorder[%d]' % (P, a), z3.Implies(z3.Not(seq[a][0]), z3.And(nxt_some == rs, z3.Implies(rs, nxt_idx == ri)))))
    return ob


# ---------------------------------------------------------------------------------------------

def check_obligations(eng, pc, ob, prefixes, res, mk_viol):
    sv = eng.solver
    mine = [(n, f) for (n, f) in ob if n.startswith(prefixes)]
    res['obligations'] += len(mine)
    remaining = list(mine)
    while remaining:
        neg = z3.Not(z3.And(*[f for (_, f) in remaining]))
        t0 = time.time(); r = eng.check(pc + [neg]); res['solver_time'] += time.time() - t0
        res['assert_queries'] += 1
        if res.get('export_smt2', 0) > len(res['smt2']):
            res['smt2'].append(harness.export_smt2(sv, pc + [neg], 'sat' if r == z3.sat else 'unsat'))
        if r == z3.unknown:
            res['unknown'] = 'assertion query unknown'; return
        if r == z3.unsat:
            res['discharged'] += len(remaining); return
        m = sv.model()
        if PREFER and eng.check(pc + [neg] + PREFER) == z3.sat: m = sv.model()
        failed = [n for (n, f) in remaining if z3.is_false(m.eval(f, model_completion=True))]
        if not failed:
            res['unknown'] = 'model does not falsify any obligation'; return
        res['violations'].append(mk_viol(m, failed))
        fs = set(failed)
        remaining = [(n, f) for (n, f) in remaining if n not in fs]


def new_result(job):
    return {'job': job, 'paths': 0, 'steps': 0, 'obligations': 0, 'discharged': 0, 'assert_queries': 0, 'violations': [],
            'outcomes': {}, 'coverage': {}, 'samples': [], 'nontrivial': 0, 'smt2': [], 'solver_time': 0.0,
            'export_smt2': job.get('export_smt2', 0)}


def iter_situations(ic):
    pre, x, N = ic.pre, ic.x, ic.N
    xs = lambda L: sel(pre.some[L], x)
    w = {
        'x_root_with_children': z3.And(z3.Not(xs('parent')), xs('first')) if N >= 2 else None,
        'x_inner_with_siblings': z3.And(xs('parent'), z3.Or(xs('prev'), xs('next')), xs('first')) if N >= 4 else None,
        'x_toplevel_chain_member': z3.And(z3.Not(xs('parent')), z3.Or(xs('prev'), xs('next'))) if N >= 2 else None,
        'x_leaf': z3.Not(xs('first')),
        'x_only_child': z3.And(xs('parent'), z3.Not(xs('prev')), z3.Not(xs('next'))) if N >= 2 else None,
        'x_depth2_subtree': z3.Or(*[z3.And(pre.live(i), pre.some['parent'][i], pre.idx['parent'][i] == x, pre.some['first'][i]) for i in range(N)]) if N >= 3 else None,
        'recycled_slot_present': z3.Or(*[z3.And(pre.live(i), pre.stamp[i] > 0) for i in range(N)]),
        'removed_slot_present': z3.Or(*[z3.Not(pre.live(i)) for i in range(N)]) if N >= 2 else None,
    }
    return {k: v for k, v in w.items() if v is not None}


def run_iter_job(prog, job):
    """job: kind='iter', name in FWD+EDGE, N, props"""
    t0 = time.time()
    name, N = job['name'], job['N']
    prefixes = tuple(p + '.' for p in job['props'])
    ic = ICtx(prog, N, job.get('fix_x'), embedded=job.get('embedded', False))
    eng = ic.eng
    res = new_result(job)
    if eng.solver.check() != z3.sat:
        res['vacuous'] = True; return res
    meth = method_lookup(prog, ITER_TYPE[name])
    sit = iter_situations(ic); cov = {k: False for k in sit}
    starts = []
    for (s, c, err) in make_iter(ic, name):
        if err:
            res['outcomes'][err] = res['outcomes'].get(err, 0) + 1
            check_obligations(eng, list(s.pc), [('%s.completes_without_panic[%s]' % (p_, name), F_) for p_ in job['props']], prefixes, res, lambda m, failed, s=s: iter_viol(ic, name, s, m, failed, 0))
            continue
        starts.append((s, c, []))
    limit = 2 * N + 2
    done = drive(eng, starts, meth, limit)
    res['paths'] = len(done)
    for (s, itcell, seq, fin) in done:
        res['steps'] += s.steps
        key = 'finished' if fin is True else ('bound' if fin is False else fin)
        res['outcomes'][key] = res['outcomes'].get(key, 0) + 1
        if fin is not True and fin is not False:
            ob = [('%s.completes_without_panic[%s]' % (p_, name), F_) for p_ in job['props']]      # a panicking iterator yields no documented sequence
        elif name in EDGE:
            ob = edge_obligations(name, ic.pre, ic.x, [edge_terms(e) for e in seq], fin)
        else:
            ob = fwd_obligations(name, ic.pre, ic.x, [id_terms(v) for v in seq], fin)
        if fin is True:
            res['nontrivial'] += 1 if len(seq) >= 2 else 0
            for k_, f in sit.items():
                if not cov[k_] and eng.check(s.pc + [f]) == z3.sat: cov[k_] = True
        if len(res['samples']) < 2:
            if s.model is None and eng.check(list(s.pc)) == z3.sat: s.model = eng.solver.model()
            if s.model is not None:
                res['samples'].append({'iterator': name, 'N': N, 'x': s.model.eval(ic.x, model_completion=True).as_long(), 'yielded': len(seq),
                                       'pre': ic.A.model_dict(s.model)})
        check_obligations(eng, list(s.pc), ob, prefixes, res,
                          lambda m, failed, s=s, seq=seq: iter_viol(ic, name, s, m, failed, len(seq)))
    res['coverage'] = cov
    res['feas_queries'] = eng.nq; res['solver_time'] += eng.tq
    res['wall'] = time.time() - t0
    return res


def iter_viol(ic, name, s, m, failed, k=None):
    if m is None:
        m = None
        if ic.eng.check(list(s.pc)) == z3.sat: m = ic.eng.solver.model()
    return {'kind': 'iter', 'checks': failed, 'op': name, 'N': ic.N, 'cfg': 'dev', 'outcome': 'yielded %s' % k,
            'args': {'x': m.eval(ic.x, model_completion=True).as_long()} if m is not None else {},
            'pre': ic.A.model_dict(m) if m is not None else None, 'role': 'iter'}


# ---- C09: reverse_traverse is the reversal of traverse; next_traverse / prev_traverse laws

def run_pair_job(prog, job):
    t0 = time.time()
    N = job['N']
    prefixes = tuple(p + '.' for p in job['props'])
    ic = ICtx(prog, N, job.get('fix_x'), embedded=job.get('embedded', False))
    eng = ic.eng
    res = new_result(job)
    if eng.solver.check() != z3.sat:
        res['vacuous'] = True; return res
    limit = 2 * N + 2
    starts = [(s, c, []) for (s, c, err) in make_iter(ic, 'traverse') if not err]
    fwd = drive(eng, starts, method_lookup(prog, 'Traverse'), limit)
    nt = find_fn(prog, 'NodeEdge', 'next_traverse'); pt = find_fn(prog, 'NodeEdge', 'prev_traverse')
    for (s, _, fseq, fin) in fwd:
        if fin is not True: continue
        F = [edge_terms(e) for e in fseq]
        # reverse traversal from the same state
        ic2_start = []
        ctor = find_fn(prog, 'NodeId', 'reverse_traverse')
        s2 = s.copy()
        eng.push_call(s2, ctor, [ic.id_x, ic.aref()], None, None)
        for o in eng.run(s2):
            if o.kind == 'return':
                c = o.state.new_cell(o.value); ic2_start.append((o.state, c, []))
        rev = drive(eng, ic2_start, method_lookup(prog, 'ReverseTraverse'), limit)
        for (s3, _, rseq, fin3) in rev:
            res['paths'] += 1; res['steps'] += s3.steps
            R = [edge_terms(e) for e in rseq]
            ob = []
            if fin3 is not True: ob.append(('C02.iterator_finite[reverse_traverse]', F_))
            else:
                ob.append(('C09.reverse_is_reversal.len', z3.BoolVal(len(R) == len(F))))
                if len(R) == len(F):
                    k = len(F)
                    for j in range(k):
                        ob.append(('C09.reverse_is_reversal[%d]' % j, z3.And(R[j][0] == F[k - 1 - j][0], R[j][1] == F[k - 1 - j][1], R[j][2] == F[k - 1 - j][2])))
                    res['nontrivial'] += 1 if k >= 4 else 0
            check_obligations(eng, list(s3.pc), ob, prefixes, res, lambda m, failed, s3=s3: iter_viol(ic, 'reverse_traverse', s3, m, failed, len(rseq)))
        # single-step laws along the forward sequence: next_traverse(F[j]) == F[j+1]; prev_traverse(F[j+1]) == F[j]
        for j in range(len(fseq)):
            for (fn, lab, expect) in ((nt, 'next_traverse', j + 1), (pt, 'prev_traverse', j - 1)):
                s4 = s.copy()
                eng.push_call(s4, fn, [fseq[j], ic.aref()], None, None)
                for o in eng.run(s4):
                    res['paths'] += 1; res['steps'] += o.state.steps
                    if o.kind != 'return':
                        ob = [('%s.completes_without_panic[%s]' % (p_, lab), F_) for p_ in job['props']]
                    else:
                        some, pay = opt_parts(o.value)
                        inside = 0 <= expect < len(F)
                        # stepping inside the traversal reproduces it; stepping over its end from End(x)/Start(x) leaves the subtree
                        if inside:
                            e = edge_terms(pay) if pay is not None else None
                            ob = [('C09.%s_reproduces[%d]' % (lab, j), z3.And(some, e[0] == F[expect][0], e[1] == F[expect][1], e[2] == F[expect][2]) if e else F_)]
                        else:
                            ob = []
                    check_obligations(eng, list(o.state.pc), ob, prefixes, res, lambda m, failed, o=o: iter_viol(ic, lab, o.state, m, failed, j))
    res['feas_queries'] = eng.nq; res['solver_time'] += eng.tq
    res['wall'] = time.time() - t0
    return res


# ---- C10: double-ended laws

def all_patterns(n):
    if n == 0: return ['']
    return [p + c for p in all_patterns(n - 1) for c in 'fb']


def run_de_job(prog, job):
    t0 = time.time()
    name, N = job['name'], job['N']
    prefixes = tuple(p + '.' for p in job['props'])
    ic = ICtx(prog, N, job.get('fix_x'), embedded=job.get('embedded', False))
    eng = ic.eng
    res = new_result(job)
    if eng.solver.check() != z3.sat:
        res['vacuous'] = True; return res
    meth = method_lookup(prog, ITER_TYPE[name])
    sit = iter_situations(ic); cov = {k: False for k in sit}
    starts = [(s, c, []) for (s, c, err) in make_iter(ic, name) if not err]
    fwd = drive(eng, starts, meth, 2 * N + 2)
    for (s, _, fseq, fin) in fwd:
        if fin is not True: continue          # finiteness is C02/C09's obligation
        F = [id_terms(v) for v in fseq]
        k = len(F)
        for k_, f in sit.items():
            if not cov[k_] and eng.check(s.pc + [f]) == z3.sat: cov[k_] = True
        for pat in all_patterns(k + 2):
            # fresh iterator in the same (now constrained) state
            ctor = find_fn(prog, 'NodeId', name)
            s2 = s.copy()
            eng.push_call(s2, ctor, [ic.id_x, ic.aref()], None, None)
            st2 = []
            for o in eng.run(s2):
                if o.kind == 'return':
                    c = o.state.new_cell(o.value); st2.append((o.state, c, []))
            for (s3, _, pseq, fin3) in drive(eng, st2, meth, 0, pulls=pat):
                res['paths'] += 1; res['steps'] += s3.steps
                ob = []
                if fin3 is not True:
                    ob.append(('C10.no_panic[%s]' % name, F_))
                else:
                    nf = nb = 0
                    for j, (c, got) in enumerate(zip(pat, pseq)):
                        taken = nf + nb
                        if taken < k:
                            exp = F[nf] if c == 'f' else F[k - 1 - nb]
                            if got is None: ob.append(('C10.%s.yields[%s@%d]' % (name, pat, j), F_))
                            else:
                                gi, gs = id_terms(got)
                                ob.append(('C10.%s.%s_order[%s@%d]' % (name, 'front' if c == 'f' else 'back', pat, j), z3.And(gi == exp[0], gs == exp[1])))
                            if c == 'f': nf += 1
                            else: nb += 1
                        else:
                            ob.append(('C10.%s.none_after_exhaustion[%s@%d]' % (name, pat, j), z3.BoolVal(got is None)))
                    res['nontrivial'] += 1 if (k >= 2 and 'f' in pat[:k] and 'b' in pat[:k]) else 0
                if len(res['samples']) < 2 and k >= 2:
                    if s3.model is None and eng.check(list(s3.pc)) == z3.sat: s3.model = eng.solver.model()
                    if s3.model is not None:
                        res['samples'].append({'iterator': name, 'N': N, 'x': s3.model.eval(ic.x, model_completion=True).as_long(), 'forward_len': k, 'pulls': pat,
                                               'pre': ic.A.model_dict(s3.model)})
                check_obligations(eng, list(s3.pc), ob, prefixes, res,
                                  lambda m, failed, s3=s3, pat=pat: dict(iter_viol(ic, name, s3, m, failed, k), pulls=pat, kind='deiter'))
    res['coverage'] = cov
    res['feas_queries'] = eng.nq; res['solver_time'] += eng.tq
    res['wall'] = time.time() - t0
    return res


# ---- C10 after a mutation: the double-ended iterators on the forest a mutator leaves behind (INV assumed only before the call)

def run_de_history_job(prog, job):
    t0 = time.time()
    op, N = job['op_mut'], job['N']
    prefixes = tuple(p + '.' for p in job['props'])
    ctx = harness.Ctx(prog, op, N, job.get('fix_t'), job.get('fix_x'))
    eng = ctx.eng
    res = new_result(job)
    if not ctx.pre_sat():
        res['vacuous'] = True; return res
    outs = ctx.explore()
    aref = Ref(ctx.acell, ())
    z = z3.BitVec('dz', 64)
    for o in outs:
        res['paths'] += 1; res['steps'] += o.state.steps
        kind, rv = harness.result_class(op, o)
        if kind not in ('ok', 'result'): continue
        V = View(o.state.store[ctx.acell])
        live = [V.live(i) for i in range(V.N)]
        s0 = o.state.copy(); cz = z3.And(z3.UGE(z, 1), z3.ULE(z, V.N), sel(live, z))
        if not eng.feasible(s0, cz): continue
        s0.pc.append(cz); s0.model = None
        idz = mk_id(z, sel(V.stamp, z))
        for name in job.get('iters', DE):
            meth = method_lookup(prog, ITER_TYPE[name])
            ctor = find_fn(prog, 'NodeId', name)
            def fresh(st_):
                s_ = st_.copy(); s_.steps = 0
                eng.push_call(s_, ctor, [idz, aref], None, None)
                return [(oc.state, oc.state.new_cell(oc.value), []) for oc in eng.run(s_) if oc.kind == 'return']
            for (s1, _, fseq, fin) in drive(eng, fresh(s0), meth, 2 * V.N + 2):
                res['paths'] += 1
                if fin is not True:
                    check_obligations(eng, list(s1.pc), [('C10.%s.forward_finite_after_%s' % (name, op), F_)], prefixes, res,
                                      lambda m, failed: de_hist_viol(ctx, m, failed, op, name, z)); continue
                F = [id_terms(v) for v in fseq]; k = len(F)
                # all pulls from the back: the forward sequence reversed, then None
                for (s2, _, pseq, fin2) in drive(eng, fresh(s1), meth, 0, pulls='b' * (k + 1)):
                    res['paths'] += 1; res['steps'] += s2.steps
                    ob = []
                    if fin2 is not True: ob.append(('C10.%s.backward_completes_after_%s' % (name, op), F_))
                    else:
                        for j, got in enumerate(pseq):
                            if j < k:
                                if got is None: ob.append(('C10.%s.backward_is_forward_reversed_after_%s[%d]' % (name, op, j), F_))
                                else:
                                    gi, gs = id_terms(got)
                                    ob.append(('C10.%s.backward_is_forward_reversed_after_%s[%d]' % (name, op, j), z3.And(gi == F[k - 1 - j][0], gs == F[k - 1 - j][1])))
                            else:
                                ob.append(('C10.%s.none_after_exhaustion_after_%s' % (name, op), z3.BoolVal(got is None)))
                        res['nontrivial'] += 1 if k >= 2 else 0
                    check_obligations(eng, list(s2.pc), ob, prefixes, res, lambda m, failed: de_hist_viol(ctx, m, failed, op, name, z))
    if eng.solver.check() == z3.sat:
        m = eng.solver.model()
        res['samples'].append({'harness': '%s then %s forward vs backward' % (op, job.get('iters', DE)), 'N': N, 'args': ctx.args_dict(m), 'pre': ctx.A.model_dict(m)})
    res['feas_queries'] = eng.nq; res['solver_time'] += eng.tq
    res['wall'] = time.time() - t0
    return res


def de_hist_viol(ctx, m, failed, op, name, z):
    return {'kind': 'custom', 'module': 'iters', 'confirm': 'confirm_de_history', 'checks': failed, 'op': op, 'N': ctx.N, 'cfg': 'dev', 'role': 'de_history',
            'pre': ctx.A.model_dict(m), 'args': dict(ctx.args_dict(m), iter=name, z=m.eval(z, model_completion=True).as_long())}


def confirm_de_history(prop, v):
    import replay
    pre = v['pre']; a = v['args']
    detail = {}; status = 'not_reproduced'
    for profile in ('dev', 'release'):
        lines = replay.construct_script(pre)
        n0 = len(lines)
        lines.append(replay.op_line(v['op'], a, pre))
        lines += ['iter %s s%d' % (a['iter'], a['z']), 'iter_rev %s s%d' % (a['iter'], a['z'])]
        res = replay.run_script(lines, profile)
        d = res.get(n0 - 1)
        try: ok = replay.same_state(replay.parse_dump(d[1]), pre)
        except Exception: ok = False
        f, b = res.get(n0 + 1), res.get(n0 + 2)
        bad = []
        if not f or not b or f[0] != 'OK' or b[0] != 'OK': bad.append('iteration did not complete: %s %s' % (f, b))
        else:
            fl = [x for x in f[1].split('NodeId') if x]; bl = [x for x in b[1].split('NodeId') if x]
            if [x.rstrip(',') for x in fl] != [x.rstrip(',') for x in reversed(bl)]: bad.append('forward %s / backward %s' % (f[1][:200], b[1][:200]))
        detail[profile] = {'pre_ok': ok, 'bad': bad}
        detail.setdefault('script', lines)
        if not ok:
            if status == 'not_reproduced': status = 'unreachable'
        elif bad: status = 'reproduced'
    return status, detail
