#!/bin/bash
# seedtool.sh verify <seed-src-dir> <id>   : confirm a seeded change in a scratch worktree (suite passes, demo fails with / passes without), store under seeded/<id>/
# seedtool.sh run <id> [props...]          : apply seeded/<id>/patch.diff to /repo, run the quick checks, undo
set -u
cd "$(dirname "$0")"
cmd=$1; shift
case "$cmd" in
verify)
  src=$1; id=$2
  wt=/tmp/seedverify-$id
  rm -rf $wt; git -C /repo worktree prune; git -C /repo worktree add -q --detach $wt HEAD || exit 3
  export CARGO_TARGET_DIR=$wt/target CARGO_NET_OFFLINE=true
  mkdir -p seeded/$id
  cp $src/patch.diff seeded/$id/patch.diff; cp $src/demo.rs seeded/$id/demo.rs; cp $src/README.md seeded/$id/agent_README.md 2>/dev/null
  cp seeded/$id/demo.rs $wt/indextree/tests/seed_demo.rs
  ( cd $wt && cargo test --offline -p indextree --test seed_demo 2>&1 | grep -E '^test result|panicked|error' | head -5 ) > seeded/$id/demo_without.txt
  ( cd $wt && git apply seeded_patch 2>/dev/null; git apply /verif/seeded/$id/patch.diff ) || { echo "patch does not apply"; exit 3; }
  ( cd $wt && cargo test --offline -p indextree --test seed_demo 2>&1 | grep -E '^test result|panicked' | head -8 ) > seeded/$id/demo_with.txt
  rm $wt/indextree/tests/seed_demo.rs
  ( cd $wt && cargo test --workspace --no-fail-fast --offline 2>&1 | grep -E '^test result|FAILED|^error' ) > seeded/$id/suite_with.txt
  echo "--- demo without change:"; cat seeded/$id/demo_without.txt
  echo "--- demo with change:"; cat seeded/$id/demo_with.txt
  echo "--- suite with change:"; cat seeded/$id/suite_with.txt | sort | uniq -c
  git -C /repo worktree remove --force $wt
  ;;
run)
  id=$1; shift
  props="$@"
  [ -z "$props" ] && props=$(python3-vt -c "import json; print(' '.join(c['property_id'] for c in json.load(open('MANIFEST.json'))['checks']))")
  git -C /repo diff --quiet || { echo "/repo is dirty"; exit 3; }
  git -C /repo apply /verif/seeded/$id/patch.diff || exit 3
  mkdir -p /var/tmp/evidence-backup && cp evidence/*.json /var/tmp/evidence-backup/ 2>/dev/null
  for p in $props; do
    out=$(./check $p --tier ${TIER:-quick} 2>&1); rc=$?
    echo "$id $p exit=$rc $(echo "$out" | grep -E '^violated' | head -3 | tr '\n' ';' | cut -c1-400) $(echo "$out" | grep -E '^INCONCLUSIVE' | head -2 | tr '\n' ';' | cut -c1-300)"
  done
  git -C /repo checkout -- . ; git -C /repo status --short
  cp /var/tmp/evidence-backup/*.json evidence/ 2>/dev/null
  ;;
esac
