//! Differential tests: every shim against the real core function on a grid of inputs.
use super::*;

fn opts() -> Vec<Option<i32>> { vec![None, Some(0), Some(1), Some(-7)] }

#[test]
fn option_shims_match_std() {
    for a in opts() {
        assert_eq!(option_is_some(&a), a.is_some());
        assert_eq!(option_is_none(&a), a.is_none());
        assert_eq!(option_is_some_and(a, |x| x > 0), a.is_some_and(|x| x > 0));
        assert_eq!(option_map(a, |x| x + 1), a.map(|x| x + 1));
        assert_eq!(option_map_or(a, 9, |x| x + 1), a.map_or(9, |x| x + 1));
        assert_eq!(option_map_or_else(a, || 9, |x| x + 1), a.map_or_else(|| 9, |x| x + 1));
        assert_eq!(option_or_else(a, || Some(5)), a.or_else(|| Some(5)));
        assert_eq!(option_and_then(a, |x| if x > 0 { Some(x) } else { None }), a.and_then(|x| if x > 0 { Some(x) } else { None }));
        assert_eq!(option_filter(a, |x| *x > 0), a.filter(|x| *x > 0));
        assert_eq!(option_unwrap_or(a, 3), a.unwrap_or(3));
        assert_eq!(option_unwrap_or_else(a, || 3), a.unwrap_or_else(|| 3));
        assert_eq!(option_unwrap_or_default(a), a.unwrap_or_default());
        assert_eq!(option_ok_or(a, "e"), a.ok_or("e"));
        assert_eq!(option_as_ref(&a), a.as_ref());
        assert_eq!(option_copied(a.as_ref()), a.as_ref().copied());
        assert_eq!(option_cloned(a.as_ref()), a.as_ref().cloned());
        assert_eq!(option_clone(&a), a.clone());
        assert_eq!(option_into_iter(a).count(), a.into_iter().count());
        let (mut m1, mut m2) = (a, a);
        assert_eq!(option_take(&mut m1), m2.take()); assert_eq!(m1, m2);
        let (mut m1, mut m2) = (a, a);
        assert_eq!(option_replace(&mut m1, 4), m2.replace(4)); assert_eq!(m1, m2);
        let (mut m1, mut m2) = (a, a);
        assert_eq!(*option_get_or_insert(&mut m1, 4), *m2.get_or_insert(4)); assert_eq!(m1, m2);
        let (mut m1, mut m2) = (a, a);
        assert_eq!(*option_insert(&mut m1, 4), *m2.insert(4)); assert_eq!(m1, m2);
        for b in opts() {
            assert_eq!(option_or(a, b), a.or(b));
            assert_eq!(option_and(a, b), a.and(b));
            assert_eq!(option_xor(a, b), a.xor(b));
            assert_eq!(option_zip(a, b), a.zip(b));
            assert_eq!(option_eq(&a, &b), a == b);
            assert_eq!(option_ne(&a, &b), a != b);
        }
    }
}

#[test]
fn result_shims_match_std() {
    let rs: Vec<Result<i32, i8>> = vec![Ok(1), Ok(-2), Err(3), Err(0)];
    for r in rs {
        assert_eq!(result_is_ok(&r), r.is_ok());
        assert_eq!(result_is_err(&r), r.is_err());
        assert_eq!(result_ok(r), r.ok());
        assert_eq!(result_err(r), r.err());
        assert_eq!(result_map(r, |x| x * 2), r.map(|x| x * 2));
        assert_eq!(result_map_err(r, |e| e + 1), r.map_err(|e| e + 1));
        assert_eq!(result_and_then(r, |x| if x > 0 { Ok(x) } else { Err(9) }), r.and_then(|x| if x > 0 { Ok(x) } else { Err(9) }));
        assert_eq!(result_unwrap_or(r, 7), r.unwrap_or(7));
        assert_eq!(result_unwrap_or_else(r, |e| e as i32), r.unwrap_or_else(|e| e as i32));
    }
}

#[test]
fn iterator_shims_match_std() {
    let vs: Vec<Vec<i32>> = vec![vec![], vec![1], vec![1, 2, 3], vec![3, -1, 4, -1, 5, 9], vec![-2, -2]];
    for v in &vs {
        let it = || v.iter().copied();
        assert_eq!(iter_any(&mut it(), |x| x < 0), it().any(|x| x < 0));
        assert_eq!(iter_all(&mut it(), |x| x > 0), it().all(|x| x > 0));
        assert_eq!(iter_find(&mut it(), |x| *x > 2), it().find(|x| *x > 2));
        assert_eq!(iter_find_map(&mut it(), |x| if x > 2 { Some(x * 2) } else { None }), it().find_map(|x| if x > 2 { Some(x * 2) } else { None }));
        assert_eq!(iter_position(&mut it(), |x| x < 0), it().position(|x| x < 0));
        assert_eq!(iter_count(it()), it().count());
        assert_eq!(iter_rposition(&mut v.iter(), |x| *x < 0), v.iter().rposition(|x| *x < 0));
        assert_eq!(iter_last(it()), it().last());
        assert_eq!(iter_fold(it(), 0, |a, x| a * 3 + x), it().fold(0, |a, x| a * 3 + x));
        for n in 0..8 {
            assert_eq!(iter_nth(&mut it(), n), it().nth(n));
            assert_eq!(iter_skip(it(), n).collect::<Vec<_>>(), it().skip(n).collect::<Vec<_>>());
            assert_eq!(iter_take(it(), n).collect::<Vec<_>>(), it().take(n).collect::<Vec<_>>());
        }
        assert_eq!(iter_rev(it()).collect::<Vec<_>>(), it().rev().collect::<Vec<_>>());
        assert_eq!(iter_take_while(it(), |x| *x > 0).collect::<Vec<_>>(), it().take_while(|x| *x > 0).collect::<Vec<_>>());
        assert_eq!(iter_skip_while(it(), |x| *x > 0).collect::<Vec<_>>(), it().skip_while(|x| *x > 0).collect::<Vec<_>>());
        assert_eq!(iter_map(it(), |x| x + 1).collect::<Vec<_>>(), it().map(|x| x + 1).collect::<Vec<_>>());
        assert_eq!(iter_filter(it(), |x| *x > 1).collect::<Vec<_>>(), it().filter(|x| *x > 1).collect::<Vec<_>>());
        assert_eq!(iter_filter_map(it(), |x| if x > 1 { Some(-x) } else { None }).collect::<Vec<_>>(), it().filter_map(|x| if x > 1 { Some(-x) } else { None }).collect::<Vec<_>>());
        assert_eq!(iter_enumerate(it()).collect::<Vec<_>>(), it().enumerate().collect::<Vec<_>>());
        assert_eq!(iter_chain(it(), it()).collect::<Vec<_>>(), it().chain(it()).collect::<Vec<_>>());
        let mut p1 = iter_peekable(it()); let mut p2 = it().peekable();
        loop {
            assert_eq!(peekable_peek(&mut p1), p2.peek());
            let (a, b) = (p1.next(), p2.next());
            assert_eq!(a, b);
            if a.is_none() { break; }
        }
        assert_eq!(iter_successors(Some(1u32), |x| if *x < 40 { Some(x * 3) } else { None }).collect::<Vec<_>>(),
                   core::iter::successors(Some(1u32), |x| if *x < 40 { Some(x * 3) } else { None }).collect::<Vec<_>>());
    }
    for s in 0..5usize { for e in 0..5usize {
        let (mut a, mut b) = (s..e, s..e);
        loop { let (x, y) = (range_next(&mut a), b.next()); assert_eq!(x, y); if x.is_none() { break; } }
        let (mut a, mut b) = (s..e, s..e);
        loop { let (x, y) = (range_next_back(&mut a), b.next_back()); assert_eq!(x, y); if x.is_none() { break; } }
        for x in 0..6 { assert_eq!(range_contains(&(s..e), &x), (s..e).contains(&x)); }
    } }
}

#[test]
fn integer_shims_match_std() {
    let xs: Vec<i16> = vec![i16::MIN, i16::MIN + 1, -2, -1, 0, 1, 2, i16::MAX - 1, i16::MAX];
    for &a in &xs {
        assert_eq!(i16_is_negative(a), a.is_negative());
        assert_eq!(i16_is_positive(a), a.is_positive());
        assert_eq!(i16_wrapping_neg(a), a.wrapping_neg());
        assert_eq!(i16_wrapping_abs(a), a.wrapping_abs());
        assert_eq!(i16_checked_neg(a), a.checked_neg());
        assert_eq!(i16_saturating_neg(a), a.saturating_neg());
        assert_eq!(i16_signum(a), a.signum());
        if a != i16::MIN { assert_eq!(i16_abs(a), a.abs()); }
        for &b in &xs {
            assert_eq!(i16_checked_add(a, b), a.checked_add(b));
            assert_eq!(i16_checked_sub(a, b), a.checked_sub(b));
            assert_eq!(i16_saturating_add(a, b), a.saturating_add(b));
            assert_eq!(i16_saturating_sub(a, b), a.saturating_sub(b));
            assert_eq!(i16_min(a, b), a.min(b));
            assert_eq!(i16_max(a, b), a.max(b));
        }
    }
    let us: Vec<usize> = vec![0, 1, 2, usize::MAX - 1, usize::MAX];
    for &a in &us { for &b in &us {
        assert_eq!(usize_checked_sub(a, b), a.checked_sub(b));
        assert_eq!(usize_checked_add(a, b), a.checked_add(b));
        assert_eq!(usize_saturating_sub(a, b), a.saturating_sub(b));
        assert_eq!(usize_saturating_add(a, b), a.saturating_add(b));
        assert_eq!(usize_min(a, b), a.min(b));
        assert_eq!(usize_max(a, b), a.max(b));
    } }
    assert_eq!(bool_then_some(true, 1), true.then_some(1)); assert_eq!(bool_then_some(false, 1), false.then_some(1));
    assert_eq!(bool_then(true, || 1), true.then(|| 1)); assert_eq!(bool_then(false, || 1), false.then(|| 1));
}

#[test]
fn vec_shims_match_std() {
    let vs: Vec<Vec<i32>> = vec![vec![], vec![1], vec![1, 2, 3], vec![1, 2, 4], vec![1, 2]];
    for a in &vs {
        assert_eq!(vec_clone(a), a.clone());
        for b in &vs { assert_eq!(vec_eq(a, b), a == b); }
    }
}

#[test]
fn vec_worklist_shims_match_std() {
    let vs: Vec<Vec<i32>> = vec![vec![], vec![1], vec![1, 2, 3], vec![1, 2, 4, 9]];
    for a in &vs {
        for b in &vs {
            let (mut x, mut y) = (a.clone(), a.clone());
            vec_extend(&mut x, b.iter().copied()); y.extend(b.iter().copied()); assert_eq!(x, y);
        }
        assert_eq!(vec_is_empty(a), a.is_empty());
        assert_eq!(vec_first(a), a.first()); assert_eq!(vec_last(a), a.last());
        for k in 0..6 { assert_eq!(vec_contains(a, &k), a.contains(&k)); let (mut x, mut y) = (a.clone(), a.clone()); vec_truncate(&mut x, k as usize); y.truncate(k as usize); assert_eq!(x, y); }
        let (mut x, mut y) = (a.clone(), a.clone()); vec_reverse(&mut x); y.reverse(); assert_eq!(x, y);
        assert_eq!(vec_into_iter(a.clone()).collect::<Vec<_>>(), a.clone().into_iter().collect::<Vec<_>>());
        assert_eq!(vec_into_iter(a.clone()).rev().collect::<Vec<_>>(), a.clone().into_iter().rev().collect::<Vec<_>>());
        assert_eq!(iter_collect_vec(a.iter().copied()), a.iter().copied().collect::<Vec<_>>());
    }
}

#[test]
fn clone_from_shims_match_std() {
    let vs: Vec<Vec<i32>> = vec![vec![], vec![1], vec![1, 2, 3], vec![7, 8]];
    for a in &vs { for b in &vs {
        let (mut x, mut y) = (a.clone(), a.clone());
        vec_clone_from(&mut x, b); y.clone_from(b); assert_eq!(x, y);
        let (mut p, mut q) = (a.clone(), a.clone());
        default_clone_from(&mut p, b); q.clone_from(b); assert_eq!(p, q);
    } }
    let mut s = String::new();
    write_pieces(&mut s, &["ab", "", "c"], &[' ', '\n', ' '], &[false, true, false]).unwrap();
    assert_eq!(s, "ab\nc");
}
