//! Rust re-implementations of the std functions used by indextree, to be dumped as MIR.
#![allow(clippy::all)]
use core::convert::Infallible;
use core::ops::ControlFlow;

pub fn option_is_some<T>(o: &Option<T>) -> bool { match o { Some(_) => true, None => false } }
pub fn option_is_none<T>(o: &Option<T>) -> bool { match o { Some(_) => false, None => true } }
pub fn option_is_some_and<T, F: FnOnce(T) -> bool>(o: Option<T>, f: F) -> bool { match o { Some(x) => f(x), None => false } }
pub fn option_map<T, U, F: FnOnce(T) -> U>(o: Option<T>, f: F) -> Option<U> { match o { Some(x) => Some(f(x)), None => None } }
pub fn option_map_or<T, U, F: FnOnce(T) -> U>(o: Option<T>, d: U, f: F) -> U { match o { Some(x) => f(x), None => d } }
pub fn option_or<T>(o: Option<T>, b: Option<T>) -> Option<T> { match o { Some(x) => Some(x), None => b } }
pub fn option_and<T, U>(o: Option<T>, b: Option<U>) -> Option<U> { match o { Some(_) => b, None => None } }
pub fn option_xor<T>(o: Option<T>, b: Option<T>) -> Option<T> { match (o, b) { (Some(a), None) => Some(a), (None, Some(b)) => Some(b), _ => None } }
pub fn option_or_else<T, F: FnOnce() -> Option<T>>(o: Option<T>, f: F) -> Option<T> { match o { Some(x) => Some(x), None => f() } }
pub fn option_and_then<T, U, F: FnOnce(T) -> Option<U>>(o: Option<T>, f: F) -> Option<U> { match o { Some(x) => f(x), None => None } }
pub fn option_filter<T, F: FnOnce(&T) -> bool>(o: Option<T>, f: F) -> Option<T> { if let Some(x) = o { if f(&x) { return Some(x); } } None }
pub fn option_take<T>(o: &mut Option<T>) -> Option<T> { core::mem::replace(o, None) }
pub fn option_unwrap<T>(o: Option<T>) -> T { match o { Some(x) => x, None => panic!("called `Option::unwrap()` on a `None` value") } }
pub fn option_expect<T>(o: Option<T>, _msg: &str) -> T { match o { Some(x) => x, None => panic!("Option::expect failed") } }
pub fn option_unwrap_or<T>(o: Option<T>, d: T) -> T { match o { Some(x) => x, None => d } }
pub fn option_eq<T: PartialEq>(a: &Option<T>, b: &Option<T>) -> bool { match (a, b) { (Some(x), Some(y)) => x == y, (None, None) => true, _ => false } }
pub fn option_clone<T: Clone>(a: &Option<T>) -> Option<T> { match a { Some(x) => Some(x.clone()), None => None } }
pub fn option_branch<T>(o: Option<T>) -> ControlFlow<Option<Infallible>, T> { match o { Some(x) => ControlFlow::Continue(x), None => ControlFlow::Break(None) } }
pub fn option_from_residual<T>(_r: Option<Infallible>) -> Option<T> { None }

pub fn result_expect<T, E>(r: Result<T, E>, _msg: &str) -> T { match r { Ok(x) => x, Err(_) => panic!("Result::expect failed") } }
pub fn result_unwrap<T, E>(r: Result<T, E>) -> T { match r { Ok(x) => x, Err(_) => panic!("Result::unwrap failed") } }
pub fn result_is_ok<T, E>(r: &Result<T, E>) -> bool { match r { Ok(_) => true, Err(_) => false } }
pub fn result_is_err<T, E>(r: &Result<T, E>) -> bool { match r { Ok(_) => false, Err(_) => true } }
pub fn result_branch<T, E>(r: Result<T, E>) -> ControlFlow<Result<Infallible, E>, T> { match r { Ok(x) => ControlFlow::Continue(x), Err(e) => ControlFlow::Break(Err(e)) } }
pub fn result_from_residual<T, E>(r: Result<Infallible, E>) -> Result<T, E> { match r { Err(e) => Err(e), Ok(x) => match x {} } }

pub fn iter_any<I: Iterator, F: FnMut(I::Item) -> bool>(it: &mut I, mut f: F) -> bool { while let Some(x) = it.next() { if f(x) { return true; } } false }
pub fn iter_all<I: Iterator, F: FnMut(I::Item) -> bool>(it: &mut I, mut f: F) -> bool { while let Some(x) = it.next() { if !f(x) { return false; } } true }
pub fn iter_find<I: Iterator, P: FnMut(&I::Item) -> bool>(it: &mut I, mut p: P) -> Option<I::Item> { while let Some(x) = it.next() { if p(&x) { return Some(x); } } None }
pub fn iter_find_map<I: Iterator, B, F: FnMut(I::Item) -> Option<B>>(it: &mut I, mut f: F) -> Option<B> { while let Some(x) = it.next() { if let Some(b) = f(x) { return Some(b); } } None }
pub fn iter_count<I: Iterator>(mut it: I) -> usize { let mut n = 0; while let Some(_) = it.next() { n += 1; } n }

pub struct Skip<I> { iter: I, n: usize }
pub fn iter_skip<I: Iterator>(it: I, n: usize) -> Skip<I> { Skip { iter: it, n } }
impl<I: Iterator> Iterator for Skip<I> {
    type Item = I::Item;
    fn next(&mut self) -> Option<I::Item> {
        while self.n > 0 { self.n -= 1; if self.iter.next().is_none() { return None; } }
        self.iter.next()
    }
}

pub fn i16_is_negative(x: i16) -> bool { x < 0 }
pub fn usize_wrapping_add(a: usize, b: usize) -> usize { let (r, _) = a.overflowing_add(b); r }
pub fn usize_checked_sub(a: usize, b: usize) -> Option<usize> { if a >= b { Some(a - b) } else { None } }
pub fn mem_replace<T>(dest: &mut T, src: T) -> T { core::mem::replace(dest, src) }

// ---- adaptors needed by the pretty printer
pub struct Rev<I> { iter: I }
pub fn iter_rev<I: DoubleEndedIterator>(it: I) -> Rev<I> { Rev { iter: it } }
impl<I: DoubleEndedIterator> Iterator for Rev<I> {
    type Item = I::Item;
    fn next(&mut self) -> Option<I::Item> { self.iter.next_back() }
}
pub struct TakeWhile<I, P> { iter: I, flag: bool, pred: P }
pub fn iter_take_while<I: Iterator, P: FnMut(&I::Item) -> bool>(it: I, p: P) -> TakeWhile<I, P> { TakeWhile { iter: it, flag: false, pred: p } }
impl<I: Iterator, P: FnMut(&I::Item) -> bool> Iterator for TakeWhile<I, P> {
    type Item = I::Item;
    fn next(&mut self) -> Option<I::Item> {
        if self.flag { return None; }
        match self.iter.next() {
            Some(x) => { if (self.pred)(&x) { Some(x) } else { self.flag = true; None } }
            None => None,
        }
    }
}
pub fn range_next(r: &mut core::ops::Range<usize>) -> Option<usize> {
    if r.start < r.end { let v = r.start; r.start = v + 1; Some(v) } else { None }
}
pub fn write_chunks<W: core::fmt::Write>(w: &mut W, chunks: &[&str]) -> core::fmt::Result {
    let mut i = 0;
    while i < chunks.len() { w.write_str(chunks[i])?; i += 1; }
    Ok(())
}
pub fn partial_ne<T: PartialEq>(a: &T, b: &T) -> bool { !(a == b) }
