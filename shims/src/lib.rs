//! Rust re-implementations ("shims") of the core/std functions used by indextree - and a generous superset, so that
//! realistic edits of the crate stay inside what mirsym can execute. The crate is never linked into anything: its MIR is
//! dumped and interpreted exactly like the MIR of indextree. `cargo test` compares every shim with the real std function.
#![allow(clippy::all)]
#![allow(dead_code)]
use core::convert::Infallible;
use core::ops::ControlFlow;

// ---------------------------------------------------------------- Option
pub fn option_is_some<T>(o: &Option<T>) -> bool { match o { Some(_) => true, None => false } }
pub fn option_is_none<T>(o: &Option<T>) -> bool { match o { Some(_) => false, None => true } }
pub fn option_is_some_and<T, F: FnOnce(T) -> bool>(o: Option<T>, f: F) -> bool { match o { Some(x) => f(x), None => false } }
pub fn option_is_none_or<T, F: FnOnce(T) -> bool>(o: Option<T>, f: F) -> bool { match o { Some(x) => f(x), None => true } }
pub fn option_map<T, U, F: FnOnce(T) -> U>(o: Option<T>, f: F) -> Option<U> { match o { Some(x) => Some(f(x)), None => None } }
pub fn option_map_or<T, U, F: FnOnce(T) -> U>(o: Option<T>, d: U, f: F) -> U { match o { Some(x) => f(x), None => d } }
pub fn option_map_or_else<T, U, D: FnOnce() -> U, F: FnOnce(T) -> U>(o: Option<T>, d: D, f: F) -> U { match o { Some(x) => f(x), None => d() } }
pub fn option_or<T>(o: Option<T>, b: Option<T>) -> Option<T> { match o { Some(x) => Some(x), None => b } }
pub fn option_and<T, U>(o: Option<T>, b: Option<U>) -> Option<U> { match o { Some(_) => b, None => None } }
pub fn option_xor<T>(o: Option<T>, b: Option<T>) -> Option<T> { match (o, b) { (Some(a), None) => Some(a), (None, Some(b)) => Some(b), _ => None } }
pub fn option_or_else<T, F: FnOnce() -> Option<T>>(o: Option<T>, f: F) -> Option<T> { match o { Some(x) => Some(x), None => f() } }
pub fn option_and_then<T, U, F: FnOnce(T) -> Option<U>>(o: Option<T>, f: F) -> Option<U> { match o { Some(x) => f(x), None => None } }
pub fn option_filter<T, F: FnOnce(&T) -> bool>(o: Option<T>, f: F) -> Option<T> { if let Some(x) = o { if f(&x) { return Some(x); } } None }
pub fn option_take<T>(o: &mut Option<T>) -> Option<T> { core::mem::replace(o, None) }
pub fn option_replace<T>(o: &mut Option<T>, v: T) -> Option<T> { core::mem::replace(o, Some(v)) }
pub fn option_insert<T>(o: &mut Option<T>, v: T) -> &mut T { *o = Some(v); match o { Some(x) => x, None => panic!("unreachable") } }
pub fn option_get_or_insert<T>(o: &mut Option<T>, v: T) -> &mut T { if let None = o { *o = Some(v); } match o { Some(x) => x, None => panic!("unreachable") } }
pub fn option_unwrap<T>(o: Option<T>) -> T { match o { Some(x) => x, None => panic!("called `Option::unwrap()` on a `None` value") } }
pub fn option_expect<T>(o: Option<T>, _msg: &str) -> T { match o { Some(x) => x, None => panic!("Option::expect failed") } }
pub fn option_unwrap_or<T>(o: Option<T>, d: T) -> T { match o { Some(x) => x, None => d } }
pub fn option_unwrap_or_else<T, F: FnOnce() -> T>(o: Option<T>, f: F) -> T { match o { Some(x) => x, None => f() } }
pub fn option_unwrap_or_default<T: Default>(o: Option<T>) -> T { match o { Some(x) => x, None => T::default() } }
pub fn option_ok_or<T, E>(o: Option<T>, e: E) -> Result<T, E> { match o { Some(x) => Ok(x), None => Err(e) } }
pub fn option_ok_or_else<T, E, F: FnOnce() -> E>(o: Option<T>, f: F) -> Result<T, E> { match o { Some(x) => Ok(x), None => Err(f()) } }
pub fn option_zip<T, U>(o: Option<T>, b: Option<U>) -> Option<(T, U)> { match (o, b) { (Some(a), Some(b)) => Some((a, b)), _ => None } }
pub fn option_as_ref<T>(o: &Option<T>) -> Option<&T> { match o { Some(x) => Some(x), None => None } }
pub fn option_as_mut<T>(o: &mut Option<T>) -> Option<&mut T> { match o { Some(x) => Some(x), None => None } }
pub fn option_copied<T: Copy>(o: Option<&T>) -> Option<T> { match o { Some(x) => Some(*x), None => None } }
pub fn option_cloned<T: Clone>(o: Option<&T>) -> Option<T> { match o { Some(x) => Some(x.clone()), None => None } }
pub fn option_eq<T: PartialEq>(a: &Option<T>, b: &Option<T>) -> bool { match (a, b) { (Some(x), Some(y)) => x == y, (None, None) => true, _ => false } }
pub fn option_ne<T: PartialEq>(a: &Option<T>, b: &Option<T>) -> bool { !option_eq(a, b) }
pub fn option_clone<T: Clone>(a: &Option<T>) -> Option<T> { match a { Some(x) => Some(x.clone()), None => None } }
pub fn option_default<T>() -> Option<T> { None }
pub fn option_branch<T>(o: Option<T>) -> ControlFlow<Option<Infallible>, T> { match o { Some(x) => ControlFlow::Continue(x), None => ControlFlow::Break(None) } }
pub fn option_from_residual<T>(_r: Option<Infallible>) -> Option<T> { None }
pub fn option_from_output<T>(x: T) -> Option<T> { Some(x) }
pub fn option_into_iter<T>(o: Option<T>) -> OptionIter<T> { OptionIter { o } }
pub struct OptionIter<T> { o: Option<T> }
impl<T> Iterator for OptionIter<T> { type Item = T; fn next(&mut self) -> Option<T> { core::mem::replace(&mut self.o, None) } }

// ---------------------------------------------------------------- Result
pub fn result_expect<T, E>(r: Result<T, E>, _msg: &str) -> T { match r { Ok(x) => x, Err(_) => panic!("Result::expect failed") } }
pub fn result_unwrap<T, E>(r: Result<T, E>) -> T { match r { Ok(x) => x, Err(_) => panic!("Result::unwrap failed") } }
pub fn result_expect_err<T, E>(r: Result<T, E>, _msg: &str) -> E { match r { Err(e) => e, Ok(_) => panic!("Result::expect_err failed") } }
pub fn result_unwrap_err<T, E>(r: Result<T, E>) -> E { match r { Err(e) => e, Ok(_) => panic!("Result::unwrap_err failed") } }
pub fn result_unwrap_or<T, E>(r: Result<T, E>, d: T) -> T { match r { Ok(x) => x, Err(_) => d } }
pub fn result_unwrap_or_else<T, E, F: FnOnce(E) -> T>(r: Result<T, E>, f: F) -> T { match r { Ok(x) => x, Err(e) => f(e) } }
pub fn result_is_ok<T, E>(r: &Result<T, E>) -> bool { match r { Ok(_) => true, Err(_) => false } }
pub fn result_is_err<T, E>(r: &Result<T, E>) -> bool { match r { Ok(_) => false, Err(_) => true } }
pub fn result_ok<T, E>(r: Result<T, E>) -> Option<T> { match r { Ok(x) => Some(x), Err(_) => None } }
pub fn result_err<T, E>(r: Result<T, E>) -> Option<E> { match r { Ok(_) => None, Err(e) => Some(e) } }
pub fn result_map<T, U, E, F: FnOnce(T) -> U>(r: Result<T, E>, f: F) -> Result<U, E> { match r { Ok(x) => Ok(f(x)), Err(e) => Err(e) } }
pub fn result_map_err<T, E, G, F: FnOnce(E) -> G>(r: Result<T, E>, f: F) -> Result<T, G> { match r { Ok(x) => Ok(x), Err(e) => Err(f(e)) } }
pub fn result_and_then<T, U, E, F: FnOnce(T) -> Result<U, E>>(r: Result<T, E>, f: F) -> Result<U, E> { match r { Ok(x) => f(x), Err(e) => Err(e) } }
pub fn result_or_else<T, E, G, F: FnOnce(E) -> Result<T, G>>(r: Result<T, E>, f: F) -> Result<T, G> { match r { Ok(x) => Ok(x), Err(e) => f(e) } }
pub fn result_branch<T, E>(r: Result<T, E>) -> ControlFlow<Result<Infallible, E>, T> { match r { Ok(x) => ControlFlow::Continue(x), Err(e) => ControlFlow::Break(Err(e)) } }
pub fn result_from_residual<T, E>(r: Result<Infallible, E>) -> Result<T, E> { match r { Err(e) => Err(e), Ok(x) => match x {} } }
pub fn result_from_output<T, E>(x: T) -> Result<T, E> { Ok(x) }

// ---------------------------------------------------------------- Iterator consumers (take the iterator by &mut)
pub fn iter_any<I: Iterator, F: FnMut(I::Item) -> bool>(it: &mut I, mut f: F) -> bool { while let Some(x) = it.next() { if f(x) { return true; } } false }
pub fn iter_all<I: Iterator, F: FnMut(I::Item) -> bool>(it: &mut I, mut f: F) -> bool { while let Some(x) = it.next() { if !f(x) { return false; } } true }
pub fn iter_find<I: Iterator, P: FnMut(&I::Item) -> bool>(it: &mut I, mut p: P) -> Option<I::Item> { while let Some(x) = it.next() { if p(&x) { return Some(x); } } None }
pub fn iter_find_map<I: Iterator, B, F: FnMut(I::Item) -> Option<B>>(it: &mut I, mut f: F) -> Option<B> { while let Some(x) = it.next() { if let Some(b) = f(x) { return Some(b); } } None }
pub fn iter_position<I: Iterator, P: FnMut(I::Item) -> bool>(it: &mut I, mut p: P) -> Option<usize> { let mut i = 0; while let Some(x) = it.next() { if p(x) { return Some(i); } i += 1; } None }
pub fn iter_rposition<I: ExactSizeIterator + DoubleEndedIterator, P: FnMut(I::Item) -> bool>(it: &mut I, mut p: P) -> Option<usize> {
    let mut i = it.len();
    while let Some(x) = it.next_back() { i -= 1; if p(x) { return Some(i); } }
    None
}
pub fn iter_nth<I: Iterator>(it: &mut I, mut n: usize) -> Option<I::Item> { while let Some(x) = it.next() { if n == 0 { return Some(x); } n -= 1; } None }
// consumers taking the iterator by value
pub fn iter_count<I: Iterator>(mut it: I) -> usize { let mut n = 0; while let Some(_) = it.next() { n += 1; } n }
pub fn iter_last<I: Iterator>(mut it: I) -> Option<I::Item> { let mut l = None; while let Some(x) = it.next() { l = Some(x); } l }
pub fn iter_fold<I: Iterator, B, F: FnMut(B, I::Item) -> B>(mut it: I, init: B, mut f: F) -> B { let mut acc = init; while let Some(x) = it.next() { acc = f(acc, x); } acc }
pub fn iter_for_each<I: Iterator, F: FnMut(I::Item)>(mut it: I, mut f: F) { while let Some(x) = it.next() { f(x); } }
pub fn iter_into_iter<I: Iterator>(it: I) -> I { it }
pub fn iter_by_ref<I: Iterator>(it: &mut I) -> &mut I { it }
pub fn iter_next_via_mut<I: Iterator>(it: &mut &mut I) -> Option<I::Item> { (**it).next() }

// ---------------------------------------------------------------- Iterator adaptors
pub struct Skip<I> { iter: I, n: usize }
pub fn iter_skip<I: Iterator>(it: I, n: usize) -> Skip<I> { Skip { iter: it, n } }
impl<I: Iterator> Iterator for Skip<I> {
    type Item = I::Item;
    fn next(&mut self) -> Option<I::Item> {
        while self.n > 0 { self.n -= 1; if self.iter.next().is_none() { return None; } }
        self.iter.next()
    }
}
pub struct Take<I> { iter: I, n: usize }
pub fn iter_take<I: Iterator>(it: I, n: usize) -> Take<I> { Take { iter: it, n } }
impl<I: Iterator> Iterator for Take<I> {
    type Item = I::Item;
    fn next(&mut self) -> Option<I::Item> { if self.n == 0 { None } else { self.n -= 1; self.iter.next() } }
}
pub struct Rev<I> { iter: I }
pub fn iter_rev<I: DoubleEndedIterator>(it: I) -> Rev<I> { Rev { iter: it } }
impl<I: DoubleEndedIterator> Iterator for Rev<I> {
    type Item = I::Item;
    fn next(&mut self) -> Option<I::Item> { self.iter.next_back() }
}
impl<I: DoubleEndedIterator> DoubleEndedIterator for Rev<I> {
    fn next_back(&mut self) -> Option<I::Item> { self.iter.next() }
}
pub struct TakeWhile<I, P> { iter: I, flag: bool, pred: P }
pub fn iter_take_while<I: Iterator, P: FnMut(&I::Item) -> bool>(it: I, p: P) -> TakeWhile<I, P> { TakeWhile { iter: it, flag: false, pred: p } }
impl<I: Iterator, P: FnMut(&I::Item) -> bool> Iterator for TakeWhile<I, P> {
    type Item = I::Item;
    fn next(&mut self) -> Option<I::Item> {
        if self.flag { return None; }
        match self.iter.next() {
            Some(x) => { if (self.pred)(&x) { Some(x) } else { self.flag = true; None } }
            None => None,
        }
    }
}
pub struct SkipWhile<I, P> { iter: I, done: bool, pred: P }
pub fn iter_skip_while<I: Iterator, P: FnMut(&I::Item) -> bool>(it: I, p: P) -> SkipWhile<I, P> { SkipWhile { iter: it, done: false, pred: p } }
impl<I: Iterator, P: FnMut(&I::Item) -> bool> Iterator for SkipWhile<I, P> {
    type Item = I::Item;
    fn next(&mut self) -> Option<I::Item> {
        loop {
            match self.iter.next() {
                Some(x) => { if self.done || !(self.pred)(&x) { self.done = true; return Some(x); } }
                None => return None,
            }
        }
    }
}
pub struct Map<I, F> { iter: I, f: F }
pub fn iter_map<I: Iterator, B, F: FnMut(I::Item) -> B>(it: I, f: F) -> Map<I, F> { Map { iter: it, f } }
impl<I: Iterator, B, F: FnMut(I::Item) -> B> Iterator for Map<I, F> {
    type Item = B;
    fn next(&mut self) -> Option<B> { match self.iter.next() { Some(x) => Some((self.f)(x)), None => None } }
}
pub struct Filter<I, P> { iter: I, pred: P }
pub fn iter_filter<I: Iterator, P: FnMut(&I::Item) -> bool>(it: I, p: P) -> Filter<I, P> { Filter { iter: it, pred: p } }
impl<I: Iterator, P: FnMut(&I::Item) -> bool> Iterator for Filter<I, P> {
    type Item = I::Item;
    fn next(&mut self) -> Option<I::Item> { while let Some(x) = self.iter.next() { if (self.pred)(&x) { return Some(x); } } None }
}
pub struct FilterMap<I, F> { iter: I, f: F }
pub fn iter_filter_map<I: Iterator, B, F: FnMut(I::Item) -> Option<B>>(it: I, f: F) -> FilterMap<I, F> { FilterMap { iter: it, f } }
impl<I: Iterator, B, F: FnMut(I::Item) -> Option<B>> Iterator for FilterMap<I, F> {
    type Item = B;
    fn next(&mut self) -> Option<B> { while let Some(x) = self.iter.next() { if let Some(b) = (self.f)(x) { return Some(b); } } None }
}
pub struct Enumerate<I> { iter: I, count: usize }
pub fn iter_enumerate<I: Iterator>(it: I) -> Enumerate<I> { Enumerate { iter: it, count: 0 } }
impl<I: Iterator> Iterator for Enumerate<I> {
    type Item = (usize, I::Item);
    fn next(&mut self) -> Option<(usize, I::Item)> { match self.iter.next() { Some(x) => { let i = self.count; self.count += 1; Some((i, x)) } None => None } }
}
pub struct Chain<A, B> { a: Option<A>, b: B }
pub fn iter_chain<A: Iterator, B: Iterator<Item = A::Item>>(a: A, b: B) -> Chain<A, B> { Chain { a: Some(a), b } }
impl<A: Iterator, B: Iterator<Item = A::Item>> Iterator for Chain<A, B> {
    type Item = A::Item;
    fn next(&mut self) -> Option<A::Item> {
        if let Some(a) = &mut self.a { match a.next() { Some(x) => return Some(x), None => { self.a = None; } } }
        self.b.next()
    }
}
pub struct Peekable<I: Iterator> { iter: I, peeked: Option<Option<I::Item>> }
pub fn iter_peekable<I: Iterator>(it: I) -> Peekable<I> { Peekable { iter: it, peeked: None } }
impl<I: Iterator> Iterator for Peekable<I> {
    type Item = I::Item;
    fn next(&mut self) -> Option<I::Item> { match core::mem::replace(&mut self.peeked, None) { Some(v) => v, None => self.iter.next() } }
}
pub fn peekable_peek<I: Iterator>(p: &mut Peekable<I>) -> Option<&I::Item> {
    if let None = p.peeked { let v = p.iter.next(); p.peeked = Some(v); }
    match &p.peeked { Some(Some(x)) => Some(x), _ => None }
}
pub struct Successors<T, F> { next: Option<T>, succ: F }
pub fn iter_successors<T, F: FnMut(&T) -> Option<T>>(first: Option<T>, succ: F) -> Successors<T, F> { Successors { next: first, succ } }
impl<T, F: FnMut(&T) -> Option<T>> Iterator for Successors<T, F> {
    type Item = T;
    fn next(&mut self) -> Option<T> { let item = core::mem::replace(&mut self.next, None)?; self.next = (self.succ)(&item); Some(item) }
}
pub struct FromFn<F> { f: F }
pub fn iter_from_fn<T, F: FnMut() -> Option<T>>(f: F) -> FromFn<F> { FromFn { f } }
impl<T, F: FnMut() -> Option<T>> Iterator for FromFn<F> { type Item = T; fn next(&mut self) -> Option<T> { (self.f)() } }

pub fn range_next(r: &mut core::ops::Range<usize>) -> Option<usize> {
    if r.start < r.end { let v = r.start; r.start = v + 1; Some(v) } else { None }
}
pub fn range_next_back(r: &mut core::ops::Range<usize>) -> Option<usize> {
    if r.start < r.end { r.end -= 1; Some(r.end) } else { None }
}
pub fn range_contains(r: &core::ops::Range<usize>, x: &usize) -> bool { r.start <= *x && *x < r.end }

// ---------------------------------------------------------------- integers
pub fn i16_is_negative(x: i16) -> bool { x < 0 }
pub fn i16_is_positive(x: i16) -> bool { x > 0 }
pub fn i16_abs(x: i16) -> i16 { if x < 0 { -x } else { x } }
pub fn i16_wrapping_neg(x: i16) -> i16 { 0i16.wrapping_sub(x) }
pub fn i16_wrapping_abs(x: i16) -> i16 { if x < 0 { 0i16.wrapping_sub(x) } else { x } }
pub fn i16_checked_neg(x: i16) -> Option<i16> { if x == i16::MIN { None } else { Some(-x) } }
pub fn i16_checked_add(a: i16, b: i16) -> Option<i16> { let (r, o) = a.overflowing_add(b); if o { None } else { Some(r) } }
pub fn i16_checked_sub(a: i16, b: i16) -> Option<i16> { let (r, o) = a.overflowing_sub(b); if o { None } else { Some(r) } }
pub fn i16_saturating_add(a: i16, b: i16) -> i16 { let (r, o) = a.overflowing_add(b); if o { if b < 0 { i16::MIN } else { i16::MAX } } else { r } }
pub fn i16_saturating_sub(a: i16, b: i16) -> i16 { let (r, o) = a.overflowing_sub(b); if o { if b > 0 { i16::MIN } else { i16::MAX } } else { r } }
pub fn i16_saturating_neg(x: i16) -> i16 { if x == i16::MIN { i16::MAX } else { -x } }
pub fn i16_signum(x: i16) -> i16 { if x < 0 { -1 } else if x > 0 { 1 } else { 0 } }
pub fn i16_min(a: i16, b: i16) -> i16 { if b < a { b } else { a } }
pub fn i16_max(a: i16, b: i16) -> i16 { if b >= a { b } else { a } }
pub fn usize_checked_sub(a: usize, b: usize) -> Option<usize> { if a >= b { Some(a - b) } else { None } }
pub fn usize_checked_add(a: usize, b: usize) -> Option<usize> { let (r, o) = a.overflowing_add(b); if o { None } else { Some(r) } }
pub fn usize_saturating_sub(a: usize, b: usize) -> usize { if a >= b { a - b } else { 0 } }
pub fn usize_saturating_add(a: usize, b: usize) -> usize { let (r, o) = a.overflowing_add(b); if o { usize::MAX } else { r } }
pub fn usize_min(a: usize, b: usize) -> usize { if b < a { b } else { a } }
pub fn usize_max(a: usize, b: usize) -> usize { if b >= a { b } else { a } }
pub fn mem_replace<T>(dest: &mut T, src: T) -> T { core::mem::replace(dest, src) }
pub fn partial_ne<T: PartialEq>(a: &T, b: &T) -> bool { !(a == b) }
pub fn bool_then_some<T>(b: bool, v: T) -> Option<T> { if b { Some(v) } else { None } }
pub fn bool_then<T, F: FnOnce() -> T>(b: bool, f: F) -> Option<T> { if b { Some(f()) } else { None } }

// ---------------------------------------------------------------- Vec<T>: Clone / PartialEq through the element impls
pub fn vec_clone<T: Clone>(v: &Vec<T>) -> Vec<T> {
    let mut out = Vec::with_capacity(v.len());
    let mut i = 0;
    while i < v.len() { out.push(v[i].clone()); i += 1; }
    out
}
pub fn vec_eq<T: PartialEq>(a: &Vec<T>, b: &Vec<T>) -> bool {
    if a.len() != b.len() { return false; }
    let mut i = 0;
    while i < a.len() { if a[i] != b[i] { return false; } i += 1; }
    true
}

pub fn default_clone_from<T: Clone>(dst: &mut T, src: &T) { *dst = src.clone(); }
pub fn vec_clone_from<T: Clone>(dst: &mut Vec<T>, src: &Vec<T>) {
    while dst.len() > src.len() { dst.pop(); }
    let n = dst.len();
    let mut i = 0;
    while i < n { dst[i].clone_from(&src[i]); i += 1; }
    while i < src.len() { dst.push(src[i].clone()); i += 1; }
}
pub fn write_pieces<W: core::fmt::Write>(w: &mut W, strs: &[&str], chars: &[char], is_char: &[bool]) -> core::fmt::Result {
    let mut i = 0;
    while i < strs.len() {
        if is_char[i] { w.write_char(chars[i])?; } else { w.write_str(strs[i])?; }
        i += 1;
    }
    Ok(())
}
pub fn vec_extend<T, I: IntoIterator<Item = T>>(v: &mut Vec<T>, it: I) {
    let mut it = it.into_iter();
    while let Some(x) = it.next() { v.push(x); }
}
pub fn vec_is_empty<T>(v: &Vec<T>) -> bool { v.len() == 0 }
pub fn vec_contains<T: PartialEq>(v: &Vec<T>, x: &T) -> bool {
    let mut i = 0;
    while i < v.len() { if v[i] == *x { return true; } i += 1; }
    false
}
pub fn vec_first<T>(v: &Vec<T>) -> Option<&T> { if v.len() == 0 { None } else { Some(&v[0]) } }
pub fn vec_last<T>(v: &Vec<T>) -> Option<&T> { if v.len() == 0 { None } else { Some(&v[v.len() - 1]) } }
pub fn vec_truncate<T>(v: &mut Vec<T>, n: usize) { while v.len() > n { v.pop(); } }
pub fn vec_reverse<T: Clone>(v: &mut Vec<T>) {
    let n = v.len();
    let mut i = 0;
    while i < n / 2 { let a = v[i].clone(); let b = v[n - 1 - i].clone(); v[i] = b; v[n - 1 - i] = a; i += 1; }
}
pub struct VecIntoIter<T> { v: Vec<T>, i: usize }
pub fn vec_into_iter<T: Clone>(v: Vec<T>) -> VecIntoIter<T> { VecIntoIter { v, i: 0 } }
impl<T: Clone> Iterator for VecIntoIter<T> {
    type Item = T;
    fn next(&mut self) -> Option<T> { if self.i < self.v.len() { let x = self.v[self.i].clone(); self.i += 1; Some(x) } else { None } }
}
impl<T: Clone> DoubleEndedIterator for VecIntoIter<T> {
    fn next_back(&mut self) -> Option<T> { if self.i < self.v.len() { self.v.pop() } else { None } }
}
pub fn iter_collect_vec<I: Iterator>(mut it: I) -> Vec<I::Item> {
    let mut v = Vec::new();
    while let Some(x) = it.next() { v.push(x); }
    v
}

// ---------------------------------------------------------------- dropping a value (C08: dropping the arena)
pub fn drop_value<T>(_v: T) {}

// ---------------------------------------------------------------- fmt helper (pretty printer)
pub fn write_chunks<W: core::fmt::Write>(w: &mut W, chunks: &[&str]) -> core::fmt::Result {
    let mut i = 0;
    while i < chunks.len() { w.write_str(chunks[i])?; i += 1; }
    Ok(())
}


// ---------------------------------------------------------------- format-template probes
// The compiled form of a format string is an opaque byte template in MIR. These functions exist only so that mirsym can
// read the templates of the four payload modes from this crate's MIR dump and recognise them in the crate under test.
pub fn fmt_tpl_display<T: core::fmt::Display>(f: &mut core::fmt::Formatter<'_>, x: &T) -> core::fmt::Result { write!(f, "{}", x) }
pub fn fmt_tpl_display_alt<T: core::fmt::Display>(f: &mut core::fmt::Formatter<'_>, x: &T) -> core::fmt::Result { write!(f, "{:#}", x) }
pub fn fmt_tpl_debug<T: core::fmt::Debug>(f: &mut core::fmt::Formatter<'_>, x: &T) -> core::fmt::Result { write!(f, "{:?}", x) }
pub fn fmt_tpl_debug_alt<T: core::fmt::Debug>(f: &mut core::fmt::Formatter<'_>, x: &T) -> core::fmt::Result { write!(f, "{:#?}", x) }

#[cfg(test)]
mod tests;
