#!/bin/bash
# Build what the checks need from files on disk only (offline): the native replayer (dev + release) and a MIR dump smoke test.
set -e
cd "$(dirname "$0")"
export CARGO_NET_OFFLINE=true
(cd replayer && cargo build --offline --quiet && cargo build --offline --quiet --release)
python3-vt -c "import z3; print('z3', z3.get_version_string())"
python3-vt - <<'PY'
import sys; sys.path.insert(0, 'mirsym')
import mirdump, shutil
from engine import Program
sc = mirdump.scratch_root()
try:
    p = Program([(mirdump.dump_repo(sc), mirdump.REPO), (mirdump.dump_shims(sc), mirdump.SHIMS)])
    print('MIR functions parsed:', len(p.funcs))
finally:
    shutil.rmtree(sc, ignore_errors=True)
PY
