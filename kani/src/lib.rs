//! Kani leaf harnesses (C13, capacity part): the only claims of the property that rest on the real `std::vec::Vec`
//! rather than on indextree's own code. Everything about arena *shapes* is decided by mirsym (DESIGN.md section 2.1 explains why
//! Kani cannot hold a symbolic arena).
#[cfg(kani)]
mod proofs {
    use indextree::Arena;

    #[kani::proof]
    #[kani::unwind(6)]
    fn with_capacity_has_room() {
        let n: usize = kani::any();
        kani::assume(n <= 4);
        let a: Arena<u8> = Arena::with_capacity(n);
        assert!(a.capacity() >= n);
        assert!(a.count() == 0);
        assert!(a.is_empty());
    }

    fn reserve_with_nodes(c: usize) {
        let mut a: Arena<u8> = Arena::new();
        let mut ids = [None; 3];
        let mut i = 0;
        while i < c {
            ids[i] = Some(a.new_node(10 + i as u8));
            i += 1;
        }
        let k: usize = kani::any();
        kani::assume(k <= 4);
        a.reserve(k);
        assert!(a.capacity() >= a.count() + k);
        assert!(a.count() == c);
        let mut i = 0;
        while i < c {
            let id = ids[i].unwrap();
            assert!(*a.get(id).unwrap().get() == 10 + i as u8);
            assert!(!id.is_removed(&a));
            i += 1;
        }
    }

    #[kani::proof]
    #[kani::unwind(6)]
    fn reserve_has_room_0_nodes() { reserve_with_nodes(0) }

    #[kani::proof]
    #[kani::unwind(6)]
    fn reserve_has_room_1_node() { reserve_with_nodes(1) }

    #[kani::proof]
    #[kani::unwind(6)]
    fn reserve_has_room_2_nodes() { reserve_with_nodes(2) }

    #[kani::proof]
    #[kani::unwind(6)]
    fn reserve_has_room_3_nodes() { reserve_with_nodes(3) }

    /// vacuity witness: the assertion must be reachable and violated
    #[kani::proof]
    #[kani::unwind(6)]
    #[kani::should_panic]
    fn witness_reserve_harness_reaches_assertions() {
        let mut a: Arena<u8> = Arena::new();
        let _ = a.new_node(1);
        let k: usize = kani::any();
        kani::assume(k <= 4);
        a.reserve(k);
        assert!(a.capacity() < a.count() + k);
    }
}
