//! Native script interpreter over the public API of indextree (replay of solver counterexamples and
//! translator validation). Reads a script on stdin, one command per line; prints one result line per command.
#![allow(deprecated)]
use indextree::{Arena, NodeEdge, NodeId};
use std::cell::RefCell;
use std::collections::HashMap;
use std::fmt;
use std::fmt::Write as _;
use std::io::{self, BufRead, Write};
use std::num::NonZeroUsize;
use std::panic::{catch_unwind, AssertUnwindSafe};

/// Bump allocator: deterministic memory layout, so that "a node of another arena lying directly behind this arena's
/// storage" (C11, get_node_id) can be reproduced on demand. Nothing is ever freed; replays are short-lived.
struct Bump;
const HEAP: usize = 1 << 28;
static mut HEAP_BUF: [u8; HEAP] = [0; HEAP];
static HEAP_OFF: std::sync::atomic::AtomicUsize = std::sync::atomic::AtomicUsize::new(0);
unsafe impl std::alloc::GlobalAlloc for Bump {
    unsafe fn alloc(&self, l: std::alloc::Layout) -> *mut u8 {
        use std::sync::atomic::Ordering;
        let base = std::ptr::addr_of_mut!(HEAP_BUF) as *mut u8 as usize;
        loop {
            let off = HEAP_OFF.load(Ordering::Relaxed);
            let start = (base + off + l.align() - 1) & !(l.align() - 1);
            let end = start + l.size() - base;
            if end > HEAP { return std::ptr::null_mut(); }
            if HEAP_OFF.compare_exchange(off, end, Ordering::Relaxed, Ordering::Relaxed).is_ok() { return start as *mut u8; }
        }
    }
    unsafe fn dealloc(&self, _p: *mut u8, _l: std::alloc::Layout) {}
}
#[global_allocator]
static GLOBAL: Bump = Bump;

thread_local! {
    static DROPS: RefCell<Vec<u8>> = RefCell::new(Vec::new());
    static RENDER: RefCell<HashMap<u8, Vec<String>>> = RefCell::new(HashMap::new());
}

/// Payload with observable identity and destructor.
struct P(u8);
impl Drop for P {
    fn drop(&mut self) {
        DROPS.with(|d| d.borrow_mut().push(self.0));
    }
}
impl Clone for P {
    fn clone(&self) -> Self {
        P(self.0)
    }
}
impl PartialEq for P {
    fn eq(&self, o: &P) -> bool {
        self.0 == o.0
    }
}
impl fmt::Debug for P {
    fn fmt(&self, f: &mut fmt::Formatter<'_>) -> fmt::Result {
        // pretty-print replays register a rendering per payload (delivered piece by piece, preceded by a marker of the mode the
        // payload was asked for: `?` Debug, `#` alternate); default is the plain number
        let r = RENDER.with(|r| r.borrow().get(&self.0).cloned());
        match r {
            Some(chunks) => write_pieces(f, &chunks, if f.alternate() { "?#" } else { "?" }),
            None => write!(f, "P({})", self.0),
        }
    }
}
fn write_pieces(f: &mut fmt::Formatter<'_>, chunks: &[String], marker: &str) -> fmt::Result {
    f.write_str(marker)?;
    for c in chunks.iter() {
        // a piece `|c|X` is handed over as a single char
        if let Some(rest) = c.strip_prefix("|c|") { f.write_char(rest.chars().next().unwrap_or(' '))?; } else { f.write_str(c)?; }
    }
    Ok(())
}
impl fmt::Display for P {
    fn fmt(&self, f: &mut fmt::Formatter<'_>) -> fmt::Result {
        let r = RENDER.with(|r| r.borrow().get(&self.0).cloned());
        match r {
            Some(chunks) => write_pieces(f, &chunks, if f.alternate() { "#" } else { "" }),
            None => write!(f, "P({})", self.0),
        }
    }
}

fn idstr(id: NodeId) -> String {
    // the derived Debug of NodeId shows index and stamp
    let s = format!("{:?}", id);
    s.replace(' ', "")
}
fn optid(o: Option<NodeId>) -> String {
    match o {
        Some(i) => idstr(i),
        None => "None".to_string(),
    }
}
fn edgestr(e: NodeEdge) -> String {
    match e {
        NodeEdge::Start(i) => format!("S{}", idstr(i)),
        NodeEdge::End(i) => format!("E{}", idstr(i)),
    }
}

struct M {
    arenas: Vec<Arena<P>>,
    cur: usize,
    regs: HashMap<String, NodeId>,
}

impl M {
    fn a(&mut self) -> &mut Arena<P> {
        &mut self.arenas[self.cur]
    }
    fn r(&self, name: &str) -> NodeId {
        *self.regs.get(name).unwrap_or_else(|| panic!("SCRIPT: unknown register {}", name))
    }
}

fn run_cmd(m: &mut M, w: &[&str]) -> String {
    let cmd = w[0];
    match cmd {
        "new" | "new_node" => {
            let d: u8 = w[2].parse().unwrap();
            let id = m.a().new_node(P(d));
            m.regs.insert(w[1].to_string(), id);
            idstr(id)
        }
        "ghost" => {
            // ghost G S : the id the arena itself reports for the node stored in the slot of S (also when that node is removed)
            let s = m.r(w[2]);
            let a = &m.arenas[m.cur];
            let id = a.get_node_id(&a[s]).expect("node of this arena");
            m.regs.insert(w[1].to_string(), id);
            idstr(id)
        }
        "copy" => {
            let id = m.r(w[2]);
            m.regs.insert(w[1].to_string(), id);
            idstr(id)
        }
        "cycle" => {
            // cycle R K D : K times remove R and allocate again (same payload value)
            let k: usize = w[2].parse().unwrap();
            let d: u8 = w[3].parse().unwrap();
            let mut id = m.r(w[1]);
            for _ in 0..k {
                id.remove(m.a());
                id = m.a().new_node(P(d));
            }
            m.regs.insert(w[1].to_string(), id);
            idstr(id)
        }
        "detach" => { let x = m.r(w[1]); x.detach(m.a()); "()".into() }
        "remove" => { let x = m.r(w[1]); x.remove(m.a()); "()".into() }
        "remove_subtree" => { let x = m.r(w[1]); x.remove_subtree(m.a()); "()".into() }
        "checked_append" => { let (t, x) = (m.r(w[1]), m.r(w[2])); format!("{:?}", t.checked_append(x, m.a())) }
        "checked_prepend" => { let (t, x) = (m.r(w[1]), m.r(w[2])); format!("{:?}", t.checked_prepend(x, m.a())) }
        "checked_insert_after" => { let (t, x) = (m.r(w[1]), m.r(w[2])); format!("{:?}", t.checked_insert_after(x, m.a())) }
        "checked_insert_before" => { let (t, x) = (m.r(w[1]), m.r(w[2])); format!("{:?}", t.checked_insert_before(x, m.a())) }
        "append" => { let (t, x) = (m.r(w[1]), m.r(w[2])); t.append(x, m.a()); "()".into() }
        "prepend" => { let (t, x) = (m.r(w[1]), m.r(w[2])); t.prepend(x, m.a()); "()".into() }
        "insert_after" => { let (t, x) = (m.r(w[1]), m.r(w[2])); t.insert_after(x, m.a()); "()".into() }
        "insert_before" => { let (t, x) = (m.r(w[1]), m.r(w[2])); t.insert_before(x, m.a()); "()".into() }
        "append_value" => {
            // append_value T D Rnew
            let t = m.r(w[1]);
            let d: u8 = w[2].parse().unwrap();
            let id = t.append_value(P(d), m.a());
            m.regs.insert(w[3].to_string(), id);
            idstr(id)
        }
        "clear" => { m.a().clear(); "()".into() }
        "dump" => format!("{:?}", m.arenas[m.cur]),
        "drops" => {
            let v = DROPS.with(|d| std::mem::take(&mut *d.borrow_mut()));
            format!("{:?}", v)
        }
        "is_removed" => { let x = m.r(w[1]); format!("{}", x.is_removed(&m.arenas[m.cur])) }
        "count" => format!("{}", m.a().count()),
        "is_empty" => format!("{}", m.a().is_empty()),
        "capacity_ge" => { let n: usize = w[1].parse().unwrap(); format!("{}", m.a().capacity() >= n) }
        "reserve" => { let n: usize = w[1].parse().unwrap(); m.a().reserve(n); "()".into() }
        // ---- arenas as values
        "arena_new" => { m.arenas.push(Arena::new()); m.cur = m.arenas.len() - 1; format!("{}", m.cur) }
        "arena_with_capacity" => { let n: usize = w[1].parse().unwrap(); m.arenas.push(Arena::with_capacity(n)); m.cur = m.arenas.len() - 1; format!("{}", m.cur) }
        "arena_adjacent" => {
            // arena_adjacent N : a new current arena with capacity exactly N, and directly behind its storage (no allocation in
            // between) a second arena holding one node; prints the index of the second arena and whether the layout is adjacent
            let n: usize = w[1].parse().unwrap();
            m.arenas.reserve(2);
            let a: Arena<P> = Arena::with_capacity(n);
            let mut b: Arena<P> = Arena::with_capacity(1);
            let fid = b.new_node(P(250));
            let cap = a.capacity();
            let end = a.as_slice().as_ptr() as usize + cap * std::mem::size_of::<indextree::Node<P>>();
            let adjacent = b.as_slice().as_ptr() as usize == end;
            m.arenas.push(a);
            m.arenas.push(b);
            m.cur = m.arenas.len() - 2;
            m.regs.insert("foreign".to_string(), fid);
            format!("{} cap={} adjacent={}", m.arenas.len() - 1, cap, adjacent)
        }
        "arena_clone" => { let c = m.arenas[m.cur].clone(); m.arenas.push(c); format!("{}", m.arenas.len() - 1) }
        "clone_from" => {
            // clone_from DST SRC
            let (i, j): (usize, usize) = (w[1].parse().unwrap(), w[2].parse().unwrap());
            let src = std::mem::replace(&mut m.arenas[j], Arena::new());
            m.arenas[i].clone_from(&src);
            m.arenas[j] = src;
            "()".into()
        }
        "fmtid" => {
            // Display of an id under several format specs
            let x = m.r(w[1]);
            format!("[{}] [{:>4}] [{:<3}] [{:.1}] [{:05}]", x, x, x, x, x)
        }
        "ghost_at" => {
            // ghost_at G P : the id at 1-based position P of the current arena (live nodes only)
            let p: usize = w[2].parse().unwrap();
            let id = m.arenas[m.cur].get_node_id_at(NonZeroUsize::new(p).unwrap()).expect("live position");
            m.regs.insert(w[1].to_string(), id);
            idstr(id)
        }
        "arena_select" => { m.cur = w[1].parse().unwrap(); format!("{}", m.cur) }
        "arena_eq" => { let (i, j): (usize, usize) = (w[1].parse().unwrap(), w[2].parse().unwrap()); format!("{}", m.arenas[i] == m.arenas[j]) }
        "arena_drop" => { let a = std::mem::replace(&mut m.arenas[m.cur], Arena::new()); drop(a); "()".into() }
        // ---- iterators: iter KIND R [limit]
        "iter" | "iter_rev" | "pulls" => {
            let kind = w[1];
            let x = m.r(w[2]);
            let a = &m.arenas[m.cur];
            let limit: usize = 4 * a.count() + 8;
            let mut out: Vec<String> = Vec::new();
            macro_rules! fwd { ($it:expr) => {{ for (k, i) in $it.enumerate() { if k >= limit { out.push("LIMIT".into()); break; } out.push(idstr(i)); } }}; }
            macro_rules! fwde { ($it:expr) => {{ for (k, e) in $it.enumerate() { if k >= limit { out.push("LIMIT".into()); break; } out.push(edgestr(e)); } }}; }
            macro_rules! de { ($it:expr) => {{
                let mut it = $it;
                if cmd == "iter" { fwd!(it) }
                else if cmd == "iter_rev" { fwd!(it.rev()) }
                else {
                    for (k, c) in w[3].chars().enumerate() {
                        if k >= limit { out.push("LIMIT".into()); break; }
                        let r = if c == 'f' { it.next() } else { it.next_back() };
                        out.push(optid(r));
                    }
                }
            }}; }
            match kind {
                "ancestors" => fwd!(x.ancestors(a)),
                "predecessors" => fwd!(x.predecessors(a)),
                "preceding_siblings" => de!(x.preceding_siblings(a)),
                "following_siblings" => de!(x.following_siblings(a)),
                "children" => de!(x.children(a)),
                "reverse_children" => fwd!(x.reverse_children(a)),
                "descendants" => fwd!(x.descendants(a)),
                "traverse" => fwde!(x.traverse(a)),
                "reverse_traverse" => fwde!(x.reverse_traverse(a)),
                _ => panic!("SCRIPT: unknown iterator {}", kind),
            }
            out.join(",")
        }
        "next_traverse" | "prev_traverse" => {
            // next_traverse S|E R
            let x = m.r(w[2]);
            let e = if w[1] == "S" { NodeEdge::Start(x) } else { NodeEdge::End(x) };
            let a = &m.arenas[m.cur];
            let r = if cmd == "next_traverse" { e.next_traverse(a) } else { e.prev_traverse(a) };
            match r { Some(e) => edgestr(e), None => "None".into() }
        }
        // ---- lookups
        "lookup" => {
            let x = m.r(w[1]);
            let a = &mut m.arenas[m.cur];
            let g = a.get(x).map(|n| n as *const _ as usize);
            let i = &a[x] as *const _ as usize;
            let gm = a.get_mut(x).map(|n| n as *const _ as usize);
            let base = a.as_slice().as_ptr() as usize;
            let sz = std::mem::size_of::<indextree::Node<P>>();
            let back = a.get_node_id(&a[x]);
            let at = a.get_node_id_at(NonZeroUsize::from(x));
            format!("get={:?} index={} get_mut={:?} get_node_id={} get_node_id_at={} usize={} nz={} display={} count={} slice_len={} iter_count={}",
                g.map(|p| (p - base) / sz), (i - base) / sz, gm.map(|p| (p - base) / sz), optid(back), optid(at),
                usize::from(x), NonZeroUsize::from(x), x, a.count(), a.as_slice().len(), a.iter().count())
        }
        "get_node_id_at" => {
            let p: usize = w[1].parse().unwrap();
            let a = &m.arenas[m.cur];
            optid(a.get_node_id_at(NonZeroUsize::new(p).unwrap()))
        }
        "foreign_get_node_id" => {
            // a node of another arena must not be found in this one
            let other: usize = w[1].parse().unwrap();
            let x = m.r(w[2]);
            let r = m.arenas[m.cur].get_node_id(&m.arenas[other][x]);
            optid(r)
        }
        "set_data" => {
            let x = m.r(w[1]);
            let d: u8 = w[2].parse().unwrap();
            m.a().get_mut(x).unwrap().get_mut().0 = d;
            "()".into()
        }
        "get_data" => { let x = m.r(w[1]); format!("{}", m.arenas[m.cur].get(x).unwrap().get().0) }
        "links" => {
            let x = m.r(w[1]);
            let n = &m.arenas[m.cur][x];
            format!("parent={} prev={} next={} first={} last={} removed={}", optid(n.parent()), optid(n.previous_sibling()),
                optid(n.next_sibling()), optid(n.first_child()), optid(n.last_child()), n.is_removed())
        }
        "par_iter" => {
            // addresses of the nodes par_iter() visits (sorted) against those of iter(); only in the all-features build
            #[cfg(feature = "ix-all")]
            {
                use rayon::iter::ParallelIterator;
                let a = &m.arenas[m.cur];
                let mut p: Vec<usize> = a.par_iter().map(|n| n as *const _ as usize).collect();
                p.sort();
                let q: Vec<usize> = a.iter().map(|n| n as *const _ as usize).collect();
                format!("par={} seq={} same={}", p.len(), q.len(), p == q)
            }
            #[cfg(not(feature = "ix-all"))]
            { "unavailable".to_string() }
        }
        "sizeof" => format!("{} {} {} {}", std::mem::size_of::<indextree::Node<P>>(), std::mem::size_of::<indextree::Node<u64>>(),
            std::mem::size_of::<indextree::Node<[u8; 33]>>(), std::mem::size_of::<indextree::Node<()>>()),
        "render" => {
            // render D <escaped text>
            let d: u8 = w[1].parse().unwrap();
            // chunks are separated by the two characters `|~|`, newlines are written as \n
            let t = w[2..].join(" ");
            let chunks: Vec<String> = t.split("|~|").map(|c| c.replace("\\n", "\n").replace("\\r", "\r")).collect();
            RENDER.with(|r| r.borrow_mut().insert(d, chunks));
            "()".into()
        }
        "pretty" => {
            // pretty MODE R ; MODE in display, display_alt, debug, debug_alt
            let x = m.r(w[2]);
            let a = &m.arenas[m.cur];
            let pp = x.debug_pretty_print(a);
            let s = match w[1] {
                "display" => format!("{}", pp),
                "display_alt" => format!("{:#}", pp),
                "debug" => format!("{:?}", pp),
                "debug_alt" => format!("{:#?}", pp),
                _ => panic!("SCRIPT: unknown mode"),
            };
            format!("{:?}", s)
        }
        _ => panic!("SCRIPT: unknown command {}", cmd),
    }
}

fn main() {
    std::panic::set_hook(Box::new(|_| {}));
    let stdin = io::stdin();
    let out = io::stdout();
    let mut m = M { arenas: Vec::with_capacity(16), cur: 0, regs: HashMap::with_capacity(4096) };
    m.arenas.push(Arena::new());
    for (ln, line) in stdin.lock().lines().enumerate() {
        let line = line.unwrap();
        let w: Vec<&str> = line.split_whitespace().collect();
        if w.is_empty() || w[0].starts_with('#') {
            continue;
        }
        {
            let mut o = out.lock();
            writeln!(o, "{} BEGIN {}", ln, line).unwrap();
            o.flush().unwrap();
        }
        let r = catch_unwind(AssertUnwindSafe(|| run_cmd(&mut m, &w)));
        let mut o = out.lock();
        match r {
            Ok(s) => writeln!(o, "{} OK {}", ln, s).unwrap(),
            Err(e) => {
                let msg = if let Some(s) = e.downcast_ref::<&str>() { s.to_string() }
                    else if let Some(s) = e.downcast_ref::<String>() { s.clone() } else { "?".to_string() };
                writeln!(o, "{} PANIC {}", ln, msg.replace('\n', " ")).unwrap()
            }
        }
        o.flush().unwrap();
    }
    // leak the arenas deliberately? no: drop them so that a double drop would be seen by the allocator
}
