#!/usr/bin/env python3
"""(re)write seeded/<id>/meta.json from the seed-run logs (latest result per seed/property wins)"""
import json, os, re, glob
NEEDS = {
 'C01-a': 'a parentless node with a sibling (top-level chain), then remove_subtree (or remove of a leaf) on it: detach returns early for parentless nodes',
 'C02-a': 'two cooperating sites (clear_links helper forgets parent): remove_subtree of a node with a descendant, both slots recycled, then the node in the descendant slot made ancestor of the node in the parent slot',
 'C03-a': 'append of a member of a top-level sibling chain (parentless with siblings) under another tree: fast path skips detach',
 'C04-a': 'remove of the first member of a top-level chain that has children: next sibling recomputed after detach',
 'C05-a': 'checked_insert_after/before with a proper non-root ancestor as new sibling: ancestor test moved after detach, Err returned but node already detached',
 'C06-a': '32768 reuse cycles of one slot: as_removed via saturating_add maps the last generation to -32767, the id is issued again',
 'C07-a': 'a slot retired at generation 32767: last_free_slot is replaced before the reuseable guard and points at the retired slot; later frees are lost',
 'C08-a': 'a free slot pending when clear() is called, clear(), k+1 allocations, then any removal: stale last_free_slot makes free_node overwrite the data of a live node',
 'C09-a': 'traverse / descendants / reverse_traverse started at a member of a top-level chain: stop node only remembered when the start has a parent',
 'C10-a': 'last element pulled with next_back(), then next(): head cursor not cleared, elements replayed',
 'C11-a': 'a retired slot (generation exhausted) and an empty free list: get_node_id_at skips the removed check and returns Some',
 'C12-a': 'remove_subtree on a parentless node with siblings: detach skipped, live neighbours keep pointing at the removed node',
 'C13-a': 'free list non-empty when clear() is called; the cleared arena keeps a stale last_free_slot: not equal to a fresh arena, first remove afterwards corrupts a live node',
 'C14-a': 'a descendant whose rendering has an empty interior (or first) line: write_str skips completing the indent for a bare newline, guide columns lose their trailing spaces',
 'C17-a': 'cfg(feature = "std") work-list variant of remove_subtree pushes children in forward order: slots are freed (and later recycled) in a different order than in no_std builds; needs a removed node with >= 2 children and two later allocations',
 'C01-b': 'two sites: remove() leaves a stale last_child in the freed node and Node::reuse no longer resets links: the recycled slot reports last_child without first_child',
 'C02-b': 'two sites: remove_subtree stops before End(self) so the freed root keeps first/last_child and Node::reuse keeps links: recycled root slot has a stale child link, a later append closes a child-link cycle and descendants() never ends',
 'C03-b': 'x.insert_before(y) where y is currently the next sibling of x: copy-pasted no-op guard tests next_sibling instead of previous_sibling and returns Ok without moving',
 'C05-b': 'ancestor test moved into insert_with_neighbors (after detach): Err/panic for an ancestor that has a parent of its own arrives after the arena was changed',
 'C07-b': 'remove_subtree splices the freed run behind a non-empty free list without moving last_free_slot: a third removal cuts the run off or overwrites a live node',
 'C08-b': 'same mechanism as C08-a found independently: clear() keeps last_free_slot; after clear + allocations a removal overwrites the payload cell of a live node',
 'C04-b': 'remove() of a last/only child that has >= 2 children: transplant sets parent.last_child to the first instead of the last node of the spliced range (debug assertion fires, release silent)',
 'C06-b': 'append_value through a new allocation path overwrites the whole recycled slot including the stamp: generation reset to 0, the id of the removed node is issued again',
 'C09-b': 'Descendants rewritten as successor walk with sentinel = next sibling of the start only: descendants() of a last child whose ancestor has a next sibling runs out of the subtree',
 'C10-b': 'next()/next_back() rewritten with take(): each end clears only its own cursor when the ends meet, polling the other end afterwards yields the last element again',
 'C11-b': 'get_node_id bound check off by one (> len instead of >= len) plus stamp taken from the foreign node: a node lying directly behind the storage of a full arena yields a bogus Some(id)',
 'C12-b': 'remove_subtree single-pass rewrite reads instead of takes next_sibling while climbing: removed inner nodes with children and a following sibling keep next_sibling',
 'C13-b': 'reserve(k) subtracts the number of removed slots: capacity() < count()+k when removed nodes are still in storage',
 'C14-b': 'write_str fast path for fragments arriving mid-line tests ends_with(newline) instead of contains: a later chunk with an interior newline loses guides and alignment',
}
rows = {}
for log in sorted(glob.glob('/verif/seeded/logs/seedrun*.log')):
    for l in open(log):
        m = re.match(r'^(C\d+-[a-z]) (C\d+) exit=(\d)\s*(.*)$', l.strip())
        if m: rows.setdefault(m.group(1), {})[m.group(2)] = (int(m.group(3)), m.group(4)[:300], os.path.basename(log))
for sid, res in sorted(rows.items()):
    d = '/verif/seeded/' + sid
    if not os.path.isdir(d): continue
    own = sid.split('-')[0]
    meta = {'seed': sid, 'breaks_property': own, 'needs_to_manifest': NEEDS.get(sid, ''),
            'verified': {'suite_with_change': 'passes (suite_with.txt: no FAILED line)', 'demo_without_change': open(d + '/demo_without.txt').read().strip().split('\n')[-1],
                         'demo_with_change': [l for l in open(d + '/demo_with.txt').read().split('\n') if l.startswith('test result')][:1]},
            'ran': './seedtool.sh verify <agent SEED dir> %s ; ./seedtool.sh run %s  (quick tier of every claimed check with the patch applied to /repo, then reverted)' % (sid, sid),
            'checks': {p: {'exit': e, 'summary': s, 'log': lg} for p, (e, s, lg) in sorted(res.items())},
            'detected_by': sorted(p for p, (e, s, lg) in res.items() if e == 1),
            'withheld_by': sorted(p for p, (e, s, lg) in res.items() if e == 2),
            'detected_by_own_property_check': res.get(own, (0,))[0] == 1}
    json.dump(meta, open(d + '/meta.json', 'w'), indent=1)
    print('%-6s own=%s detected_by=%s withheld=%d' % (sid, meta['detected_by_own_property_check'], ','.join(meta['detected_by']), len(meta['withheld_by'])))

# ---- markdown table for DESIGN.md section 9.6
import sys
if '--table' in sys.argv:
    print('| seed | breaks | needs in order to manifest | own check | other checks raising VIOLATION | verdict withheld (exit 2) by |')
    print('|------|--------|-----------------------------|-----------|--------------------------------|------------------------------|')
    for d in sorted(glob.glob('/verif/seeded/C*')):
        m = json.load(open(d + '/meta.json'))
        own = m['breaks_property']
        det = [p for p in m['detected_by'] if p != own]
        print('| %s | %s | %s | %s | %s | %s |' % (m['seed'], own, m['needs_to_manifest'], 'VIOLATION' if m['detected_by_own_property_check'] else ('exit %s' % m['checks'].get(own, {}).get('exit')),
                                               ', '.join(det) or '-', ', '.join(m['withheld_by']) or '-'))
