#!/usr/bin/env python3
"""(re)write seeded/<id>/meta.json from the seed-run logs (latest result per seed/property wins)"""
import json, os, re, glob
NEEDS = {
 'C01-a': 'a parentless node with a sibling (top-level chain), then remove_subtree (or remove of a leaf) on it: detach returns early for parentless nodes',
 'C02-a': 'two cooperating sites (clear_links helper forgets parent): remove_subtree of a node with a descendant, both slots recycled, then the node in the descendant slot made ancestor of the node in the parent slot',
 'C03-a': 'append of a member of a top-level sibling chain (parentless with siblings) under another tree: fast path skips detach',
 'C04-a': 'remove of the first member of a top-level chain that has children: next sibling recomputed after detach',
 'C05-a': 'checked_insert_after/before with a proper non-root ancestor as new sibling: ancestor test moved after detach, Err returned but node already detached',
 'C06-a': '32768 reuse cycles of one slot: as_removed via saturating_add maps the last generation to -32767, the id is issued again',
 'C07-a': 'a slot retired at generation 32767: last_free_slot is replaced before the reuseable guard and points at the retired slot; later frees are lost',
 'C08-a': 'a free slot pending when clear() is called, clear(), k+1 allocations, then any removal: stale last_free_slot makes free_node overwrite the data of a live node',
 'C09-a': 'traverse / descendants / reverse_traverse started at a member of a top-level chain: stop node only remembered when the start has a parent',
 'C10-a': 'last element pulled with next_back(), then next(): head cursor not cleared, elements replayed',
 'C11-a': 'a retired slot (generation exhausted) and an empty free list: get_node_id_at skips the removed check and returns Some',
 'C12-a': 'remove_subtree on a parentless node with siblings: detach skipped, live neighbours keep pointing at the removed node',
 'C13-a': 'free list non-empty when clear() is called; the cleared arena keeps a stale last_free_slot: not equal to a fresh arena, first remove afterwards corrupts a live node',
 'C14-a': 'a descendant whose rendering has an empty interior (or first) line: write_str skips completing the indent for a bare newline, guide columns lose their trailing spaces',
 'C17-a': 'cfg(feature = "std") work-list variant of remove_subtree pushes children in forward order: slots are freed (and later recycled) in a different order than in no_std builds; needs a removed node with >= 2 children and two later allocations',
 'C01-b': 'two sites: remove() leaves a stale last_child in the freed node and Node::reuse no longer resets links: the recycled slot reports last_child without first_child',
 'C02-b': 'two sites: remove_subtree stops before End(self) so the freed root keeps first/last_child and Node::reuse keeps links: recycled root slot has a stale child link, a later append closes a child-link cycle and descendants() never ends',
 'C03-b': 'x.insert_before(y) where y is currently the next sibling of x: copy-pasted no-op guard tests next_sibling instead of previous_sibling and returns Ok without moving',
 'C05-b': 'ancestor test moved into insert_with_neighbors (after detach): Err/panic for an ancestor that has a parent of its own arrives after the arena was changed',
 'C07-b': 'remove_subtree splices the freed run behind a non-empty free list without moving last_free_slot: a third removal cuts the run off or overwrites a live node',
 'C08-b': 'same mechanism as C08-a found independently: clear() keeps last_free_slot; after clear + allocations a removal overwrites the payload cell of a live node',
 'C04-b': 'remove() of a last/only child that has >= 2 children: transplant sets parent.last_child to the first instead of the last node of the spliced range (debug assertion fires, release silent)',
 'C06-b': 'append_value through a new allocation path overwrites the whole recycled slot including the stamp: generation reset to 0, the id of the removed node is issued again',
 'C09-b': 'Descendants rewritten as successor walk with sentinel = next sibling of the start only: descendants() of a last child whose ancestor has a next sibling runs out of the subtree',
 'C10-b': 'next()/next_back() rewritten with take(): each end clears only its own cursor when the ends meet, polling the other end afterwards yields the last element again',
 'C11-b': 'get_node_id bound check off by one (> len instead of >= len) plus stamp taken from the foreign node: a node lying directly behind the storage of a full arena yields a bogus Some(id)',
 'C12-b': 'remove_subtree single-pass rewrite reads instead of takes next_sibling while climbing: removed inner nodes with children and a following sibling keep next_sibling',
 'C13-b': 'reserve(k) subtracts the number of removed slots: capacity() < count()+k when removed nodes are still in storage',
 'C03-c': 'p.append(a) where a is already the FIRST child of p and p has >= 2 children: hand-written same-parent fast path forgets to advance first_child',
 'C04-c': 'remove(x) where x has exactly one child and x is the only child of its parent: single-child fast path updates first_child but (else if) not last_child',
 'C05-c': 'live.append(removed_id): fast path of the unchecked append for isolated nodes skips the removed check (a removed node looks isolated); release links the freed slot, debug panics after changing the arena',
 'C06-c': 'remove of an isolated root (no parent, no siblings) that still has children: fast path returns before free_node, the id never becomes removed',
 'C07-c': 'free-list link stored as Option<NonZeroUsize> of a zero-based index: freeing slot 0 while another slot is already free encodes as None, slot 0 and everything freed after it are lost',
 'C09-c': 'predecessors() with a visit budget of count()-1: when the predecessor chain covers every slot of the arena the last element (the root) is dropped',
 'C12-c': 'insert guards ask the id (id.is_removed(arena)) instead of the slot: an id obtained from the arena for a removed node (get_node_id on a removed slot, negative stamp) passes the guard in either position',
 'C17-c': 'cfg(feature = "std") pretty-printer path renders the payload into a String and re-splits it with lines(): payloads containing \\r\\n (or ending in newlines) print differently with and without std',
 'C01-d': 'insert_after/insert_before unlink the node from its siblings but keep its parent link; the redundant detach inside insert_with_neighbors then wipes the OLD parent\'s first/last child: node moved away from a parent that keeps other children, or within a parent with >= 3 children',
 'C02-d': 'ancestor test refactored into a helper; checked_insert_before passes the two ids in swapped order: a grandparent is accepted as new sibling of its grandchild (parent cycle)',
 'C04-d': 'two sites: connect_neighbors sets parent on the two nodes it links, transplant drops rewrite_parents: remove(x) with >= 3 children leaves the inner children pointing at the removed node',
 'C08-d': 'hand-written Clone with clone_from that forgets last_free_slot: dst.clone_from(&src) with a pending free slot in dst, then any removal overwrites the payload cell of a live node',
 'C10-d': 'insert_before fast path for moving a same-parent child to the front: with >= 4 children the node after the gap gets previous_sibling = self; forward iteration fine, backward iteration skips a node (a structural fault: visible to C01/C03 at N = 5, not to the iterator checks on well-formed forests)',
 'C11-d': 'hand-written Node::clone_from does not copy the stamp: after arena.clone_from(&snapshot) positions and ids disagree with links (get_node_id_at None for a linked node / stale generation)',
 'C13-d': 'hand-written PartialEq compares self.last_free_slot with other.first_free_slot: a == a.clone() is false as soon as two slots are on the free list',
 'C14-d': 'IndentWriter overrides write_char with a fast path that does not clear is_first_line: a line break that reaches the writer as a single char makes the continuation line start with a second connector',
 'C02-e': 'two clean-ups of the double detach: insert_with_neighbors no longer detaches, checked_prepend detaches only when the node is already the first child: prepend of a node attached elsewhere links it twice (parent cycle, node in two sibling chains, endless traversal)',
 'C03-e': 'checked_prepend on a target WITHOUT children takes the append fast path before detaching: an attached node is linked under the target but stays in its old place',
 'C05-e': 'checked_prepend drops the detach and picks the future next sibling before unlinking: prepend of the current first child of a parent with >= 2 children trips a debug assertion (release succeeds): debug/release divergence',
 'C06-e': 'NodeId::is_removed enumerates cases (tombstone of this id, or a newer live generation) and forgets "slot free again after a later occupant": an id two occupants old reads as not removed while the slot is free',
 'C07-e': 'pop_front_free_node clears the tail when one entry REMAINS; free_node starts a new list unless both ends are set: with two free slots, one allocation and one more removal the remaining free slot is lost',
 'C09-e': 'preceding_siblings back cursor taken from parent.last_child (copy-paste in a shared helper): forward iteration from the last child stops after one element, backward iteration starts at the wrong end',
 'C12-e': 'the removed-parent assertion of append_value moved into insert_last_unchecked, i.e. after the allocation: the refused call has already recycled a slot (or recycles the parent\'s own slot and succeeds)',
 'C13-e': 'reserve rounds the capacity up to a power of two and calls reserve_exact(target - capacity): measured from the wrong base, capacity() < count()+k whenever the arena has unused capacity',
 'C01-f': 'remove() re-derives the right end of the gap after detach from previous_sibling: removing a FIRST child that has children and a following sibling transplants the children with no next sibling, the following siblings drop off the parent\'s chain',
 'C03-f': 'append_value through a duplicated allocation path that does not reset last_free_slot when it takes the ONLY free slot: arena differs from new_node + append only in the free-list tail; the next removal then overwrites the new live node',
 'C04-f': 'remove() only-child fast path tests first_child == last_child AFTER detach: with exactly one remaining sibling the parent\'s child pointers are overwritten with x\'s children and the sibling is lost',
 'C05-f': 'checked_insert_after on a last child delegates to parent.checked_append and translates only AppendAncestor: inserting the direct parent after its last child reports AppendSelf although the two ids differ',
 'C08-f': 'checked_insert_after fast path for a new sibling without sibling links (an only child is not detached): the old parent keeps pointing at the moved node; a later remove_subtree of the old parent frees the live node and drops its payload (needs two calls; the first one breaks C01/C03)',
 'C10-f': 'checked_insert_after on a last child appends a node from ANOTHER parent without detaching it: the node sits in two child lists, forward and backward iteration of the old parent disagree',
 'C11-f': 'get_node_id_at guarded by is_allocated(position) comparing the ONE-based position with capacity(): None for the live last position of an exactly full arena',
 'C14-f': 'fast path for a childless start node returns write!(f, "{}", payload) before the alternate flag is read: {:#} / {:#?} of a leaf print the plain rendering',
 'C02-g': 'preceding_siblings constructor looks for the first sibling by walking previous_sibling in a loop that never advances when the node has no parent: for a parentless node with a previous sibling (top-level chain, e.g. after removing a root with >= 2 children) the call never returns',
 'C06-g': 'NodeStamp::as_removed written as (-x).min(-1): the generation stops advancing after the first reuse (0 -> -1 -> 1 -> -1 -> 1 ...); from the second recycling of a slot on the previous occupant\'s id is handed out again and its is_removed flips back to false',
 'C09-g': 'Descendants::next steps directly to the next node in pre-order and tests the subtree bound only on proper ancestors of the current node: a leaf start node with a next sibling (or whose ancestor has one) runs on into the rest of the tree',
 'C12-g': 'branch-free removed test on the two stamps written with XOR instead of OR: an insert whose two arguments are BOTH removed (two different removed nodes) is accepted (release) or panics after writing a link (debug)',
 'C13-g': 'with_capacity clamps the eager allocation to 4096 nodes: with_capacity(n).capacity() < n for n > 4096',
 'C17-g': 'Display for NodeId goes through Formatter::pad(&index1.to_string()) only with feature std: width / precision in the format spec are honoured with std and ignored without',
 'C01-h': 'checked_insert_after fast path for moving a node down by one place (new_sibling is the previous sibling of self) swaps the sibling links in place and forgets the parent\'s first_child when new_sibling was the first child',
 'C03-h': 'append_value through a hand-rolled fast path on Arena::get_pair_mut (split_at_mut): the else branch returns the two references swapped, so when the recycled slot lies BEFORE the parent\'s slot parent and child are exchanged (debug: assertion panic, release: corrupted links)',
 'C04-h': 'remove rewritten as an in-place splice; parent.first_child = next_sibling.or(first_child) has its operands swapped: removing a FIRST child that has children and a next sibling makes the parent skip the spliced-in children',
 'C05-h': 'the loop check of checked_insert_after / checked_insert_before walks parent.predecessors() instead of ancestors(): inserting an earlier sibling of an ancestor (an "uncle") next to a node is refused with an ancestor error that does not apply; the unchecked forms panic',
 'C07-h': 'remove_subtree clears a freed node through a helper that rebuilds it with NextFree(None): the free-list link written when the descendants were freed is cut, slots are lost and the arena grows although removed slots exist',
 'C08-h': 'remove_subtree unhooks the subtree root inline; the case "last child with a previous sibling" forgets the sibling\'s next link: after the slot is recycled, removing the old parent\'s subtree follows the stale link and frees (drops) the unrelated new node',
 'C10-h': 'double-ended iterators keep a 64-bit mask of yielded nodes indexed by slot number modulo 64 per end: two siblings whose slots differ by a multiple of 64 (arena of >= 66 slots) make a mixed next()/next_back() sequence stop early',
 'C11-h': 'NodeId::from_index0 builds an id with generation 0; used in get_node_id: for a live node in a recycled slot get_node_id returns an id with the right position and stamp 0',
 'C14-h': 'two sites in IndentWriter: an incrementally tracked count of blank ancestor levels that can undercount after returning from a non-last item, and a dropped continuation-line case: a multi-line last child below a last-child chain of depth 3 (six nodes) is printed one column too far left',
 'C02-i': 'the loop checks of the four checked inserts share a helper that cuts the ancestor walk with take_while(ancestor >= other), assuming ancestors always sit in lower slots: an ancestor is accepted below its own descendant as soon as a node on the path lives in a lower slot (tree built bottom-up, or a recycled low slot) - parent cycle',
 'C03-i': 'detach_from_siblings skips connect_neighbors unless the range has a parent or BOTH outer neighbours: taking the first or last node of a TOP-LEVEL sibling chain away leaves the remaining neighbour with a stale link to it',
 'C06-i': 'remove_subtree fast path for a free-standing leaf frees the node and forgets to return: the slot is freed twice, the stamp flips back to live and the free list points at itself (debug: the assertion in as_removed panics on a valid call; release: the id is handed out again)',
 'C07-i': 'append_value uses a free_list_is_empty() helper written as first_free == last_free: with exactly ONE free slot it pushes a fresh slot instead of recycling (count() grows although a removed slot is available)',
 'C09-i': 'ReverseTraverse tests for the start node only when stepping up to a parent: from a start node with a previous sibling it walks on into the earlier siblings and up to the tree root',
 'C12-i': 'checked_insert_after / _before test the removed RECEIVER only after new_sibling.detach(): the refused call (Err(Removed) / panic) has already cut an attached live node out of its tree',
 'C13-i': 'clear() rewritten as *self = Self::with_capacity(self.count()): capacity shrinks to the number of slots in use (needs an arena with spare capacity before clear)',
 'C17-i': 'with feature std the IndentWriter takes its indent stack from a thread_local cell and puts it back on drop: after a print that was cut short by fmt::Error the left-over levels prefix the next print on the same thread (no_std builds unaffected)',
 'C14-b': 'write_str fast path for fragments arriving mid-line tests ends_with(newline) instead of contains: a later chunk with an interior newline loses guides and alignment',
}
rows = {}
for log in sorted(glob.glob('/verif/seeded/logs/seedrun*.log')):
    for l in open(log):
        m = re.match(r'^(C\d+-[a-z]) (C\d+) exit=(\d)\s*(.*)$', l.strip())
        if m: rows.setdefault(m.group(1), {})[m.group(2)] = (int(m.group(3)), m.group(4)[:300], os.path.basename(log))
for sid, res in sorted(rows.items()):
    d = '/verif/seeded/' + sid
    if not os.path.isdir(d): continue
    own = sid.split('-')[0]
    meta = {'seed': sid, 'breaks_property': own, 'needs_to_manifest': NEEDS.get(sid, ''),
            'verified': {'suite_with_change': 'passes (suite_with.txt: no FAILED line)', 'demo_without_change': open(d + '/demo_without.txt').read().strip().split('\n')[-1],
                         'demo_with_change': [l for l in open(d + '/demo_with.txt').read().split('\n') if l.startswith('test result')][:1]},
            'ran': ('./seedtool.sh verify <agent SEED dir> %s ; ./devseed.sh %s <props>  (quick tier of the listed checks with the patch applied to a scratch worktree of /repo at the same commit: MIR dumped from it, counterexamples replayed against a replayer built on it)' % (sid, sid))
                   if any(lg.endswith('-dev.log') for (_, _, lg) in res.values()) else
                   './seedtool.sh verify <agent SEED dir> %s ; ./seedtool.sh run %s  (quick tier of every claimed check with the patch applied to /repo, then reverted)' % (sid, sid),
            'checks': {p: {'exit': e, 'summary': s, 'log': lg} for p, (e, s, lg) in sorted(res.items())},
            'detected_by': sorted(p for p, (e, s, lg) in res.items() if e == 1),
            'withheld_by': sorted(p for p, (e, s, lg) in res.items() if e == 2),
            'detected_by_own_property_check': res.get(own, (0,))[0] == 1}
    json.dump(meta, open(d + '/meta.json', 'w'), indent=1)
    print('%-6s own=%s detected_by=%s withheld=%d' % (sid, meta['detected_by_own_property_check'], ','.join(meta['detected_by']), len(meta['withheld_by'])))

# ---- markdown table for DESIGN.md section 9.6
import sys
if '--table' in sys.argv:
    print('| seed | breaks | needs in order to manifest | own check | other checks raising VIOLATION | verdict withheld (exit 2) by |')
    print('|------|--------|-----------------------------|-----------|--------------------------------|------------------------------|')
    for d in sorted(glob.glob('/verif/seeded/C*')):
        m = json.load(open(d + '/meta.json'))
        own = m['breaks_property']
        det = [p for p in m['detected_by'] if p != own]
        print('| %s | %s | %s | %s | %s | %s |' % (m['seed'], own, m['needs_to_manifest'], 'VIOLATION' if m['detected_by_own_property_check'] else ('exit %s' % m['checks'].get(own, {}).get('exit')),
                                               ', '.join(det) or '-', ', '.join(m['withheld_by']) or '-'))
