#!/bin/bash
# developer helper: the quick checks against a seed applied to the scratch worktree /var/tmp/repo-clean (usable while /repo is busy):
# MIR is dumped from the scratch worktree and counterexamples are replayed against a scratch copy of the replayer built on it;
# evidence goes to /var/tmp/dev-evidence. NOCONFIRM=1 skips the native replay.
cd /verif
id=$1; shift
[ -d /var/tmp/repo-clean ] || git -C /repo worktree add -q --detach /var/tmp/repo-clean HEAD || exit 3   # scratch worktree (remove with: git -C /repo worktree remove --force /var/tmp/repo-clean)
git -C /var/tmp/repo-clean checkout -q -- . && git -C /var/tmp/repo-clean apply /verif/seeded/$id/patch.diff || exit 3
for p in "$@"; do
  out=$(VERIF_REPO=/var/tmp/repo-clean VERIF_NOCONFIRM=${NOCONFIRM:-} VERIF_EVIDENCE_DIR=/var/tmp/dev-evidence VERIF_JOBS=${VERIF_JOBS:-6} ./check $p --tier ${TIER:-quick} 2>&1); rc=$?
  echo "$id $p exit=$rc $(echo "$out" | grep -E '^violated|^VIOLATION' | head -4 | tr '\n' ';' | cut -c1-500) $(echo "$out" | grep -E '^INCONCLUSIVE' | head -2 | tr '\n' ';' | cut -c1-300)"
done
git -C /var/tmp/repo-clean checkout -q -- .
