#!/bin/bash
# developer helper: symbolic part of the quick checks against a seed applied to the scratch worktree /var/tmp/repo-clean
# (no native confirmation, evidence written to /var/tmp/dev-evidence) - usable while /repo is busy
cd /verif
id=$1; shift
git -C /var/tmp/repo-clean checkout -q -- . && git -C /var/tmp/repo-clean apply /verif/seeded/$id/patch.diff || exit 3
for p in "$@"; do
  out=$(VERIF_REPO=/var/tmp/repo-clean VERIF_NOCONFIRM=1 VERIF_EVIDENCE_DIR=/var/tmp/dev-evidence VERIF_JOBS=${VERIF_JOBS:-6} ./check $p --tier quick 2>&1); rc=$?
  echo "$id $p exit=$rc $(echo "$out" | grep -E '^violated' | head -3 | tr '\n' ';' | cut -c1-400) $(echo "$out" | grep -E '^INCONCLUSIVE' | head -2 | tr '\n' ';' | cut -c1-300)"
done
git -C /var/tmp/repo-clean checkout -q -- .
